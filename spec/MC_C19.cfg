SPECIFICATION Spec
INVARIANTS TypeOK
CHECK_DEADLOCK FALSE
