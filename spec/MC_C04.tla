------------------------------- MODULE MC_C04 -------------------------------
(***************************************************************************)
(* C04: enum variants order by declared discriminant, never by layout.     *)
(* Configurations: variant shapes x explicit discriminants x #[repr] x     *)
(* payload types with niches / zero size.  Layout does not exist in the    *)
(* specification: CmpDecl reads Disc(c, v) only, which is the property.    *)
(* The harness supplies the layout matrix (payload types, reprs, neighbour *)
(* bytes) for the same configurations.                                     *)
(***************************************************************************)
EXTENDS EduceRun, EduceBuild

CONSTANTS PayloadSet, ReprSet, MaxPayloadVariants

VARIABLE run
vars == <<cfg, phase, run>>
NoRun == [op |-> "none"]

DiscsQuick    == {-1, 5, 200}
DiscsThorough == {-1, 1, 5, 200, 300}
\* BigDisc stands for u64::MAX (TLC's integers are 32-bit): discriminants that only a 64-bit unsigned type holds
BigDisc == 2000000000
DiscsBig == {1, BigDisc - 1, BigDisc}
TraitSetsOrd == { <<"PartialEq", "PartialOrd">>, <<"PartialEq", "Eq", "PartialOrd", "Ord">> }
\* ordering next to an educed Copy (a handler may be tempted to read the discriminant off a copied value)
TraitSetsOrdCopy == TraitSetsOrd \cup { <<"Clone", "Copy", "PartialEq", "Eq", "PartialOrd", "Ord">>, <<"Clone", "Copy", "PartialEq", "PartialOrd">> }
CONSTANT TraitSetsC04
CONSTANT DiscSet

MCKindSet == {"enum"}
MCTypeOptSet(k) ==
  { [DefOpts EXCEPT !.traits = t, !.ordvia = (IF "Ord" \in { t[j] : j \in DOMAIN t } THEN "Ord" ELSE "PartialOrd"), !.repr = r] :
      t \in TraitSetsC04, r \in ReprSet }

NPayload(c) == Cardinality({ v \in 1..NVariants(c) : c.variants[v].style # "unit" })
MCVarOptSet(c) ==
  { [DefVariant EXCEPT !.style = s, !.disc = d] :
      s \in (IF NPayload(c) < MaxPayloadVariants THEN {"unit", "tuple"} ELSE {"unit"}),
      d \in DiscSet \cup {NoDisc} }
MCFieldSet(c) ==
  IF NVariants(c) = 0 \/ Len(Last(c.variants).fields) >= 1 THEN {}
  ELSE { [DefField EXCEPT !.ty = t] : t \in PayloadSet }

IntReprs == {"u8", "i16", "isize", "i8", "C, u8", "u64"}
Fits(r, d) ==
  CASE r \in {"u8", "C, u8"} -> d >= 0 /\ d <= 255
    [] r = "i16" -> d >= -32768 /\ d <= 32767
    [] r = "i8" -> d >= -128 /\ d <= 127
    [] r = "u64" -> d >= 0 /\ d <= BigDisc
    [] OTHER -> d < BigDisc - 1000
HasExplicit(c) == \E v \in 1..NVariants(c) : c.variants[v].disc # NoDisc
HasPayload(c) == NPayload(c) > 0

\* what rustc accepts (E0081 duplicate discriminants, E0732 explicit
\* discriminants next to non-unit variants need an integer repr, E0084 repr on
\* an empty enum, E0566 conflicting hints, literal out of range)
MCAdmissible(c) ==
  /\ NVariants(c) >= 1
  /\ \A v \in 1..NVariants(c) : c.variants[v].style = "tuple" => NFields(c, v) = 1
  /\ \A v, w \in 1..NVariants(c) : v # w => Disc(c, v) # Disc(c, w)
  /\ (HasExplicit(c) /\ HasPayload(c)) => c.opts.repr \in IntReprs
  /\ \A v \in 1..NVariants(c) : Fits(c.opts.repr, Disc(c, v))
  /\ c.opts.repr = "C, u8" => HasPayload(c)          \* E0566 on a field-less enum

Init == BuildInit /\ run = NoRun

OpsOf(c) == IF HasTrait(c, "Ord") THEN {"cmp", "partial_cmp"} ELSE {"partial_cmp"}

Begin(op, a, b) ==
  /\ run = NoRun
  /\ run' = [op |-> op, a |-> a, b |-> b, pc |-> 1, calls |-> <<>>, done |-> FALSE, ret |-> "Equal"]
  /\ UNCHANGED <<cfg, phase>>

DoStart      == (\E k \in KindSet : \E o \in TypeOptSet(k) : Start(k, o)) /\ UNCHANGED run
DoAddVariant == (\E vo \in VarOptSet(cfg) : AddVariant(vo)) /\ UNCHANGED run
DoAddField   == (\E f \in FieldSet(cfg) : AddField(f)) /\ UNCHANGED run
DoSeal       == Seal /\ UNCHANGED run
\* design-level reduction: the machine never reads repr or payload type
\* (except the unit type), so one representative of each is run
RunHere(c) ==
  /\ c.opts.repr = CHOOSE r \in ReprSet : \A v \in 1..NVariants(c) : Fits(r, Disc(c, v)) /\ ((HasExplicit(c) /\ HasPayload(c)) => r \in IntReprs)
DoBegin ==
  /\ phase = "sealed"
  /\ RunHere(cfg)
  /\ \E op \in OpsOf(cfg) : \E a \in Values(cfg) : \E b \in Values(cfg) : Begin(op, a, b)
Step ==
  /\ run # NoRun /\ ~run.done
  /\ run' = ImplCmpStep(cfg, run)
  /\ UNCHANGED <<cfg, phase>>
Return ==
  /\ run # NoRun /\ run.done
  /\ run' = NoRun
  /\ UNCHANGED <<cfg, phase>>

Next == DoStart \/ DoAddVariant \/ DoAddField \/ DoSeal \/ DoBegin \/ Step \/ Return
Spec == Init /\ [][Next]_vars

Finished == run # NoRun /\ run.done

ImplMeetsDecl == Finished => run.ret = CmpDecl(cfg, run.op, run.a, run.b)
ImplMeetsProp == Finished => PropCmpResults(cfg, run.op, run.a, run.b, <<run.ret>>)

\* different variants: the discriminant order alone decides, strictly
CrossVariantByDisc ==
  (Finished /\ run.a.v # run.b.v) =>
     /\ run.ret # "Equal"
     /\ run.ret = IntCmp(Disc(cfg, run.a.v), Disc(cfg, run.b.v))
     /\ run.calls = <<>>

\* a total order on variants
VariantOrderTotal ==
  (phase = "sealed" /\ run = NoRun) =>
    \A u, v, w \in 1..NVariants(cfg) :
      (Disc(cfg, u) < Disc(cfg, v) /\ Disc(cfg, v) < Disc(cfg, w)) => Disc(cfg, u) < Disc(cfg, w)
\* corpus-only exploration (used where only the configurations are wanted, not the run machine): states in which a
\* run has begun are not expanded
CorpusOnly == run = NoRun
=============================================================================
