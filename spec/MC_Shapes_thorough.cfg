SPECIFICATION Spec
CONSTANTS
  MaxVariants = 3
  MaxArity = 2
  TraitSets = {"Debug", "Clone", "CopyClone", "PartialEq", "PartialEqEq", "PartialOrd", "Ord", "Hash", "Default", "Deref", "DerefDerefMut", "DerefMut", "Into", "All"}
INVARIANTS TypeOK
CHECK_DEADLOCK FALSE
