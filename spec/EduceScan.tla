----------------------------- MODULE EduceScan -----------------------------
(***************************************************************************)
(* Level X: the attribute scanner.                                         *)
(*                                                                         *)
(* One #[educe(...)] attribute is a list of *metas*; a meta names a trait  *)
(* and has one of three forms:                                             *)
(*     Trait            (form "path")                                      *)
(*     Trait = value    (form "nv",   m.val  = value kind)                 *)
(*     Trait(p1, p2..)  (form "list", m.params = sequence of parameters,   *)
(*                       each [name, form, val] with the same three forms) *)
(* Values are abstracted to *kinds* (ValKinds): what the scanner's value   *)
(* parsers can tell apart.                                                 *)
(*                                                                         *)
(* The scanner is a small state machine per meta (ScanInit / ScanStep): it *)
(* walks the parameter list, keeps the `*_is_set` flags, and ends in "ok"  *)
(* or "err".  Verdict(ctx, m) is its declarative counterpart: the table of *)
(* which forms / parameters / value kinds each trait accepts at each       *)
(* position (Appendix A of DESIGN.md, transcribed from the 24 models/*.rs  *)
(* files).  MC_C13 checks ScanStep against Verdict and emits every         *)
(* (context, meta) pair with its verdict; the harness injects the meta     *)
(* into a neutral base item at that position and expands it.               *)
(***************************************************************************)
EXTENDS Naturals, Sequences, FiniteSets, TLC

AllTraits == {"Debug", "Clone", "Copy", "PartialEq", "Eq", "PartialOrd", "Ord", "Hash", "Default", "Deref", "DerefMut", "Into"}

\* other ways to write a literal or an identifier: 0x1F, 3u8, an out-of-range integer, r"zz", b"zz", " zz ", "a b",
\* "0x1F", "+3", (3), r#type, "r#type", "type"
LitKinds == {"hexint", "sufint", "bigint", "rawstr_ident", "bytestr", "str_ws_ident", "str_2idents", "str_hexint", "str_plusint",
             "paren_int", "rawident", "str_rawident", "str_kw", "macro_call"}      \* macro_call: vec![1] -- an expression, nothing else
IdentLike == {"ident", "str_ident", "rawstr_ident", "str_ws_ident", "rawident", "str_rawident"}
ValKinds == {"bool_t", "bool_f", "ident", "str_ident", "str_empty", "int", "negint", "str_int", "str_negint",
             "path2", "str_path2", "float", "star", "preds", "str_preds", "call", "char"} \cup LitKinds
NoVal == "-"

\* ------------------------------------------------------------------------
\* value parsers (src/common/*.rs): which (form, value kind) they accept
\* form: "path" (bare parameter name), "nv" (name = v), "list" (name(v))
\* ------------------------------------------------------------------------
\* a value written after `=` must parse as an expression for the attribute to
\* be a Meta at all
NvParses(val) == val \notin {"star", "preds"}

AccIdentBool(form, val) ==        \* ident_bool.rs meta_2_ident_and_bool
  /\ form # "path"
  /\ val \in {"bool_t", "bool_f", "str_empty"} \cup IdentLike
AccIdent(form, val) ==            \* meta_2_ident
  /\ form # "path"
  /\ val \in IdentLike
AccBool(form, val) ==             \* meta_2_bool
  /\ form # "path"
  /\ val \in {"bool_t", "bool_f"}
AccBoolOrPath(form, val) ==       \* meta_2_bool_allow_path
  form = "path" \/ val \in {"bool_t", "bool_f"}
AccPath(form, val) ==             \* path.rs meta_2_path
  /\ form # "path"
  /\ val \in {"path2", "str_path2"} \cup IdentLike
AccInt(form, val) ==              \* int.rs meta_2_isize
  /\ form # "path"
  /\ val \in {"int", "negint", "str_int", "str_negint", "hexint", "sufint", "str_plusint"}
AccExpr(form, val) ==             \* expr.rs meta_2_expr
  /\ form # "path"
  /\ val \notin {"star", "preds"}
AccBound(form, val) ==            \* where_predicates_bool.rs meta_2_where_predicates
  \/ form = "nv" /\ val \in {"bool_t", "bool_f", "str_preds", "str_empty"}
  \/ form = "list" /\ val \in {"bool_t", "bool_f", "str_preds", "str_empty", "star", "preds"}

Acc(parser, form, val) ==
  /\ form = "nv" => NvParses(val)
  /\ CASE parser = "identbool" -> AccIdentBool(form, val)
       [] parser = "ident" -> AccIdent(form, val)
       [] parser = "bool" -> AccBool(form, val)
       [] parser = "boolpath" -> AccBoolOrPath(form, val)
       [] parser = "path" -> AccPath(form, val)
       [] parser = "int" -> AccInt(form, val)
       [] parser = "expr" -> AccExpr(form, val)
       [] parser = "bound" -> AccBound(form, val)
       [] OTHER -> FALSE

\* parameter aliases share one `*_is_set` flag
Canon(name) == CASE name = "rename" -> "name" [] name = "expr" -> "expression" [] OTHER -> name

\* ------------------------------------------------------------------------
\* the tables.  ctx = [kind, pos, educed, shown, build, texpr]
\*   kind   : "struct" | "enum" | "union"
\*   pos    : "type" | "variant" | "field"
\*   educed : the set of traits educed on the type
\*   shown  : (Debug, field) "key" if the field is shown with a key, "pos" if positionally
\*   build  : (Default, field) TRUE if the field is one the Default impl builds
\*   texpr  : (Default) TRUE if the type has a type-level expression
\* Table(ctx, t) = [path, nv, empty, params, unsafe]
\*   path   : is the bare `Trait` accepted
\*   nv     : the parser of `Trait = v` ("" = refused)
\*   empty  : is `Trait()` accepted
\*   params : parameter name -> parser
\*   unsafe : "no" | "opt" (an optional leading `unsafe`) | "req" (required)
\* ------------------------------------------------------------------------
None == [x \in {} |-> ""]
T(path, nv, empty, params, uns) == [path |-> path, nv |-> nv, empty |-> empty, params |-> params, unsafe |-> uns]
Refuse == T(FALSE, "", FALSE, None, "no")
OnlyEmptyList == T(FALSE, "", TRUE, None, "no")       \* a quirk the code has on purpose (S2)
BoundOnly == ("bound" :> "bound")

TypeTable(ctx, t) ==
  LET k == ctx.kind
      has(x) == x \in ctx.educed
  IN CASE t = "Debug" ->
            IF k = "struct" THEN T(TRUE, "ident", TRUE, ("name" :> "identbool") @@ ("named_field" :> "bool") @@ BoundOnly, "no")
            ELSE IF k = "enum" THEN T(TRUE, "ident", TRUE, ("name" :> "identbool") @@ BoundOnly, "no")
            ELSE T(FALSE, "", FALSE, ("name" :> "identbool"), "req")
       [] t = "Clone" -> T(TRUE, "", TRUE, BoundOnly, "no")
       [] t = "Copy" -> T(TRUE, "", TRUE, IF has("Clone") THEN None ELSE BoundOnly, "no")
       [] t \in {"PartialEq", "Hash"} ->
            IF k = "union" THEN T(FALSE, "", FALSE, None, "req") ELSE T(TRUE, "", TRUE, BoundOnly, "no")
       [] t = "Eq" -> T(TRUE, "", TRUE, IF has("PartialEq") THEN None ELSE BoundOnly, "no")
       [] t = "PartialOrd" ->
            IF k = "union" THEN Refuse ELSE T(TRUE, "", TRUE, IF has("Ord") THEN None ELSE BoundOnly, "no")
       [] t = "Ord" -> IF k = "union" THEN Refuse ELSE T(TRUE, "", TRUE, BoundOnly, "no")
       [] t = "Default" -> T(TRUE, "", TRUE, ("new" :> "boolpath") @@ ("expression" :> "expr") @@ BoundOnly, "no")
       [] t \in {"Deref", "DerefMut"} -> IF k = "union" THEN Refuse ELSE T(TRUE, "", FALSE, None, "no")
       [] OTHER -> Refuse      \* Into has its own grammar (a type first), see IntoVerdict

VariantTable(ctx, t) ==
  CASE t = "Debug" -> T(FALSE, "ident", TRUE, ("name" :> "identbool") @@ ("named_field" :> "bool"), "no")
    [] t = "Default" -> IF ctx.texpr THEN OnlyEmptyList ELSE T(TRUE, "", TRUE, None, "no")
    [] t \in {"Deref", "DerefMut", "Into"} -> Refuse
    [] OTHER -> OnlyEmptyList

FieldTable(ctx, t) ==
  LET k == ctx.kind
      has(x) == x \in ctx.educed
      cmpParams == ("ignore" :> "boolpath") @@ ("method" :> "path")
  IN CASE t = "Debug" ->
            IF k = "union" THEN OnlyEmptyList
            ELSE IF ctx.shown = "key"
            THEN T(FALSE, "identbool", TRUE, ("name" :> "ident") @@ ("ignore" :> "boolpath") @@ ("method" :> "path"), "no")
            ELSE T(FALSE, "bool", TRUE, ("ignore" :> "boolpath") @@ ("method" :> "path"), "no")
       [] t = "Clone" ->
            IF k = "union" \/ (k = "struct" /\ has("Copy")) THEN OnlyEmptyList
            ELSE T(FALSE, "", TRUE, ("method" :> "path"), "no")
       [] t \in {"PartialEq", "Hash"} ->
            IF k = "union" THEN OnlyEmptyList ELSE T(FALSE, "bool", TRUE, cmpParams, "no")
       [] t = "Eq" ->
            \* with PartialEq educed, Eq(..) on a field is read by the PartialEq scanner
            IF has("PartialEq") /\ k # "union" THEN T(FALSE, "bool", TRUE, cmpParams, "no")
            ELSE IF has("PartialEq") THEN OnlyEmptyList ELSE Refuse
       [] t = "Copy" -> Refuse
       [] t = "Ord" -> T(FALSE, "bool", TRUE, cmpParams @@ ("rank" :> "int"), "no")
       [] t = "PartialOrd" -> T(FALSE, "bool", TRUE, cmpParams @@ ("rank" :> "int"), "no")
       [] t = "Default" ->
            IF ~ctx.build \/ ctx.texpr THEN OnlyEmptyList
            ELSE T(k = "union", "expr", TRUE, ("expression" :> "expr"), "no")
       [] t \in {"Deref", "DerefMut"} -> T(TRUE, "", FALSE, None, "no")
       [] OTHER -> Refuse

Table(ctx, t) ==
  CASE ctx.pos = "type" -> TypeTable(ctx, t)
    [] ctx.pos = "variant" -> VariantTable(ctx, t)
    [] OTHER -> FieldTable(ctx, t)

\* ------------------------------------------------------------------------
\* declarative verdict for one meta in one context
\* m = [t, form, val, uns, params]; uns: "no" | "first" | "later" (where an
\* `unsafe` keyword stands in the parameter list)
\* ------------------------------------------------------------------------
ParamOK(tab, p) ==
  /\ Canon(p.name) \in DOMAIN tab.params
  /\ Acc(tab.params[Canon(p.name)], p.form, p.val)

NoDuplicates(ps) == \A i, j \in DOMAIN ps : i # j => Canon(ps[i].name) # Canon(ps[j].name)

\* ------------------------------------------------------------------------
\* Into has a grammar of its own: Into(Type [, parameters]).  m.ty is what
\* stands in the type slot: "req" (a target requested on the type), "other" /
\* "path2" (well-formed types that are not requested), or something that is
\* not a type ("int", "str_ident", "star", "none" = nothing at all).
\* Type level: any well-formed type (+ bound); the neutral base has a sole
\* field, so every target finds its field.  Field level: only requested
\* targets (+ method).  Variant level: refused.
\* ------------------------------------------------------------------------
IntoTypeOK(ty) == ty \in {"req", "other", "path2"}
IntoParams(ctx) == IF ctx.pos = "type" THEN ("bound" :> "bound") ELSE ("method" :> "path")
IntoVerdict(ctx, m) ==
  IF ctx.kind = "union" \/ ctx.pos = "variant" THEN "err"
  ELSE IF m.form # "list" \/ m.uns # "no" THEN "err"
  ELSE IF ~IntoTypeOK(m.ty) THEN "err"
  ELSE IF ctx.pos = "field" /\ m.ty # "req" THEN "err"                  \* no such Into impl requested
  ELSE LET tab == [params |-> IntoParams(ctx)] IN
    IF (\A i \in DOMAIN m.params : ParamOK(tab, m.params[i])) /\ NoDuplicates(m.params) THEN "ok" ELSE "err"

Verdict(ctx, m) ==
  IF m.t \notin AllTraits THEN "err"                                   \* unsupported trait
  ELSE IF ctx.pos # "type" /\ m.t \notin ctx.educed THEN "err"         \* trait not used
  ELSE IF m.t = "Into" THEN IntoVerdict(ctx, m)
  ELSE LET tab == Table(ctx, m.t) IN
    CASE m.form = "path" -> IF tab.path THEN "ok" ELSE "err"
      [] m.form = "nv" -> IF tab.nv # "" /\ Acc(tab.nv, "nv", m.val) THEN "ok" ELSE "err"
      [] OTHER ->
           IF m.uns = "later" THEN "err"                               \* `unsafe` must stay first
           ELSE IF m.uns = "first" /\ tab.unsafe = "no" THEN "err"
           ELSE IF m.uns = "no" /\ tab.unsafe = "req" THEN "err"
           ELSE IF m.params = <<>> THEN (IF tab.empty \/ m.uns = "first" THEN "ok" ELSE "err")
           ELSE IF (\A i \in DOMAIN m.params : ParamOK(tab, m.params[i])) /\ NoDuplicates(m.params)
                THEN "ok" ELSE "err"

\* ------------------------------------------------------------------------
\* Which diagnostic wins (not fixed by any property; recorded as *drift* only).
\* Classes: "unsupported" (unknown trait), "unused" (trait not educed),
\* "place" (the attribute cannot be placed here: nothing at all is accepted),
\* "format" (incorrect format, with a usage hint), "reset" (parameter given
\* twice), "syn" (a value or the parameter list does not parse),
\* "union" (unsafe missing / trait not available for unions).
\* ------------------------------------------------------------------------
NothingAccepted(tab) == ~tab.path /\ tab.nv = "" /\ DOMAIN tab.params = {} /\ tab.unsafe = "no"
FmtClass(tab) == IF NothingAccepted(tab) THEN "place" ELSE "format"

RECURSIVE FirstParamError(_, _, _, _)
FirstParamError(tab, ps, i, seen) ==
  IF i > Len(ps) THEN "none"
  ELSE LET p == ps[i] IN
    IF Canon(p.name) \notin DOMAIN tab.params THEN FmtClass(tab)
    ELSE IF ~Acc(tab.params[Canon(p.name)], p.form, p.val) THEN "syn"
    ELSE IF Canon(p.name) \in seen THEN "reset"
    ELSE FirstParamError(tab, ps, i + 1, seen \cup {Canon(p.name)})

\* `unsafe` where it is not understood is read as an unknown parameter at its position
UnsafeParam == [name |-> "unsafe", form |-> "path", val |-> NoVal]
EffParams(tab, m) ==
  IF m.uns = "first" /\ tab.unsafe = "no" THEN <<UnsafeParam>> \o m.params
  ELSE IF m.uns = "later" THEN <<m.params[1], UnsafeParam>> \o Tail(m.params)
  ELSE m.params

ErrClass(ctx, m) ==
  IF m.form = "nv" /\ ~NvParses(m.val) THEN "syn"                    \* the whole #[educe(..)] list does not parse
  ELSE IF m.t \notin AllTraits THEN "unsupported"
  ELSE IF ctx.pos # "type" /\ m.t \notin ctx.educed THEN "unused"
  ELSE IF m.t = "Into" THEN "other"
  ELSE IF ctx.pos = "type" /\ ctx.kind = "union" /\ m.t \in {"PartialOrd", "Ord", "Deref", "DerefMut"} THEN "union"
  ELSE LET tab == Table(ctx, m.t) IN
    CASE m.form = "path" -> IF tab.unsafe = "req" THEN "union" ELSE FmtClass(tab)
      [] m.form = "nv" ->
           IF ctx.pos = "type" /\ ctx.kind = "union" /\ m.t = "Debug"
           THEN (IF AccIdent("nv", m.val) THEN "union" ELSE "syn")       \* the name is read before `unsafe` is missed
           ELSE IF tab.nv = "" THEN FmtClass(tab) ELSE "syn"
      [] OTHER ->
           IF NothingAccepted(tab) /\ ~tab.empty THEN "place"            \* refused before the list is even parsed
           ELSE IF \E i \in DOMAIN m.params : m.params[i].form = "nv" /\ ~NvParses(m.params[i].val) THEN "syn"
           ELSE LET ps == EffParams(tab, m)
                    e == FirstParamError(tab, ps, 1, {}) IN
                  IF ps = <<>> THEN (IF m.uns = "no" /\ tab.unsafe = "req" THEN "union" ELSE FmtClass(tab))
                  ELSE IF e = "none" /\ m.uns = "no" /\ tab.unsafe = "req" THEN "union" ELSE e

\* ------------------------------------------------------------------------
\* the scanner as a step machine (the handler closure with its *_is_set flags)
\* st = [i, set, verdict]
\* ------------------------------------------------------------------------
ScanInit == [i |-> 1, set |-> {}, verdict |-> "scanning"]

ScanStep(ctx, m, st) ==
  LET tab == IF m.t = "Into" THEN [params |-> IntoParams(ctx)] ELSE Table(ctx, m.t) IN
    IF st.i > Len(m.params) THEN [st EXCEPT !.verdict = "ok"]
    ELSE LET p == m.params[st.i] IN
      IF Canon(p.name) \notin DOMAIN tab.params THEN [st EXCEPT !.verdict = "err"]          \* handler returns false
      ELSE IF ~Acc(tab.params[Canon(p.name)], p.form, p.val) THEN [st EXCEPT !.verdict = "err"]  \* value parser fails
      ELSE IF Canon(p.name) \in st.set THEN [st EXCEPT !.verdict = "err"]                   \* parameter_reset
      ELSE [st EXCEPT !.i = @ + 1, !.set = @ \cup {Canon(p.name)}]
=============================================================================
