--------------------------- MODULE EduceFeatures ---------------------------
(***************************************************************************)
(* C18: the cfg-gating of the crate, for every subset of the twelve trait  *)
(* features.                                                               *)
(*                                                                         *)
(* The gating facts are *extracted from the source at check time* (by      *)
(* lib/features.py) and loaded as constants from IOEnv.FACTS:              *)
(*   gate[m]   -- features any of which opens module m ({} = always open)  *)
(*   parent[m] -- enclosing gated module ("" = none)                       *)
(*   uses[h]   -- shared modules the handler of feature h imports          *)
(*   deps[m]   -- shared modules that m itself imports                     *)
(*   pairs     -- cfg(feature = X) / cfg(not(feature = Y)) twins that      *)
(*                define the same binding                                  *)
(* One TLC state per non-empty subset S; the invariants say that every     *)
(* module an enabled handler needs is compiled in, that every twin is      *)
(* complementary, and that the feature list itself is the expected one.    *)
(* A violated invariant is a *prediction* (a candidate); only a real build *)
(* decides (S3).                                                           *)
(***************************************************************************)
EXTENDS Naturals, Sequences, FiniteSets, TLC, Json, IOUtils

Facts == JsonDeserialize(IOEnv.FACTS)
ToSet(s) == { s[i] : i \in DOMAIN s }

Features == ToSet(Facts.features)
Modules == ToSet(Facts.modules)
Gate(m) == ToSet(Facts.gate[m])
Parent(m) == Facts.parent[m]
Uses(h) == ToSet(Facts.uses[h])
Deps(m) == ToSet(Facts.deps[m])

VARIABLE S
Init == S \in (SUBSET Features) \ {{}}
Next == UNCHANGED S
Spec == Init /\ [][Next]_S

RECURSIVE Open(_, _)
Open(m, T) ==
  /\ Gate(m) = {} \/ Gate(m) \cap T # {}
  /\ Parent(m) = "" \/ Open(Parent(m), T)

RECURSIVE Closure(_)
Closure(Ms) ==
  LET more == Ms \cup UNION { Deps(m) : m \in Ms } IN IF more = Ms THEN Ms ELSE Closure(more)
Needed(T) == Closure(UNION { Uses(h) : h \in T })

\* every module an enabled handler needs is compiled in
GatingClosed == \A m \in Needed(S) : Open(m, S)
\* the twelve features are the twelve traits
FeatureListAsExpected ==
  Features = {"Debug", "Clone", "Copy", "PartialEq", "Eq", "PartialOrd", "Ord", "Hash", "Default", "Deref", "DerefMut", "Into"}
\* paired cfg(feature) / cfg(not(feature)) sites name the same feature
PairsComplementary == \A i \in DOMAIN Facts.pairs : Facts.pairs[i].pos = Facts.pairs[i].neg

\* subsets that sit on the edge of some gate: a needed module is held open by exactly one enabled feature
Barely == \E m \in Needed(S) : Gate(m) # {} /\ Cardinality(Gate(m) \cap S) = 1
\* Where a disabled trait can be named.  The name is looked up at the type level by the entry point and at the variant /
\* field level by each enabled handler's own attribute scan, so the refusal has to be observed per handler (the enabled
\* trait whose handler does the scan), per position and per shape -- including the shapes a handler special-cases
\* (a struct with exactly one field, a tuple struct, a union).
DisabledSites ==
  { [pos |-> p, shape |-> sh] : p \in {"type", "variant", "field"},
                                 sh \in {"struct1_named", "struct1_tuple", "struct2_named", "enum1_named", "enum1_tuple", "enum2", "union1"} } 
ValidSite(x) == (x.pos = "variant" => x.shape \in {"enum1_named", "enum1_tuple", "enum2"})
ASSUME PrintT(<<"DSITES", ToJson({ x \in DisabledSites : ValidSite(x) })>>)

EmitBoundary == Barely => PrintT(<<"BOUNDARY", ToJson([s |-> [f \in Features |-> f \in S]])>>)
=============================================================================
