---------------------------- MODULE EduceBounds ----------------------------
(***************************************************************************)
(* Bounds and impl headers (C11, C12).                                     *)
(*                                                                         *)
(* A generic configuration carries c.opts.gen (a generics descriptor) and  *)
(* field type classes that mention the type parameters.  For every trait   *)
(* the specification defines                                               *)
(*   Delegated(c, t)  -- the fields the impl delegates to the trait for,   *)
(*   Supers(c, t)     -- the supertraits required of the type itself,      *)
(*   Applies(c, t, a) -- does the impl apply to Type<args> (C11), over a   *)
(*                       small model of trait resolution for the type      *)
(*                       classes,                                          *)
(*   WhereSet(c, t)   -- the predicates the impl's where-clause must       *)
(*                       consist of in each bound mode (C12), as strings   *)
(*                       with all white space removed,                     *)
(*   ImplParams(c)    -- the impl header's generic parameters.             *)
(***************************************************************************)
EXTENDS EduceRun

\* ---------------------------------------------------------------- generics descriptors
\* "TU"   : <T, U>
\* "rich" : <'a, const N: usize, T: Bnd = u8> where T: Usr   (lifetime, const parameter, bounded + defaulted
\*                                                            type parameter, user where-clause)
\* "wide" : <'a, 'b: 'a, T: ?Sized + Bnd, const N: usize = 2, U: Bnd = u8>
\*          where &'b T: Usr, U: Usr, [u8; N]: Sized, Self: Sized, for<'x> &'x U: Usr2
\*          (a lifetime bound, an unsized type parameter with two bounds, a defaulted const and a defaulted type
\*           parameter, a where-clause over compound types)
\* "lc"   : <'a, const N: usize>   (no type parameter at all: an item that is generic over a lifetime and a const only)
GenDescs == {"TU", "rich", "wide", "lc"}
TypeParamsOf(g) == CASE g = "TU" -> <<"T", "U">> [] g = "rich" -> <<"T">> [] g = "lc" -> <<>> [] OTHER -> <<"T", "U">>
ImplParamsOf(g) ==                                                                     \* defaults dropped
  CASE g = "TU" -> <<"T", "U">> [] g = "rich" -> <<"'a", "constN:usize", "T:Bnd">> [] g = "lc" -> <<"'a", "constN:usize">>
    [] OTHER -> <<"'a", "'b:'a", "T:?Sized+Bnd", "constN:usize", "U:Bnd">>
UserWhereOf(g)  == CASE g = "TU" -> {} [] g = "rich" -> {"T:Usr"} [] g = "lc" -> {} [] OTHER -> {"&'bT:Usr", "U:Usr", "[u8;N]:Sized", "Self:Sized", "for<'x>&'xU:Usr2"}

\* ---------------------------------------------------------------- field type classes
\* text of the field type (spaces removed) and whether it implements a trait, given which of the type
\* parameters do (a = [T |-> BOOLEAN, U |-> BOOLEAN])
PhantomAllText(g) ==
  CASE g = "TU" -> "PhantomData<(T,U)>" [] g = "rich" -> "PhantomData<&'a[T;N]>" [] g = "lc" -> "PhantomData<&'a[u8;N]>" [] OTHER -> "PhantomData<(&'au8,&'bT,[U;N])>"
TyText(ty) ==
  CASE ty = "T" -> "T" [] ty = "U" -> "U" [] ty = "WrapT" -> "Wrap<T>" [] ty = "PhantomT" -> "PhantomData<T>"
    [] ty = "RefT" -> "&'bT" [] ty = "ArrN" -> "[u8;N]" [] ty = "ArrT" -> "[T;2]" [] ty = "Arr0T" -> "[T;0]" [] ty = "PairTU" -> "(T,U)" [] ty = "conc" -> "u8" [] ty = "PhantomAll" -> "PhantomAll" [] ty = "A" -> "TA"
    [] OTHER -> ty
\* (tr: the trait asked of the field type.  Arrays implement a trait when their element does -- except that the empty
\*  array is Default whatever its element is)
ImplTy(ty, tr, a) ==
  CASE ty = "T" -> a.T [] ty = "U" -> a.U [] ty = "WrapT" -> a.T [] ty = "PairTU" -> a.T /\ a.U
    [] ty = "ArrT" -> a.T
    [] ty = "Arr0T" -> (tr = "Default" \/ a.T)
    [] OTHER -> TRUE          \* PhantomData<..>, concrete types

TraitPath(t) ==
  CASE t = "Debug" -> "::core::fmt::Debug" [] t = "Clone" -> "::core::clone::Clone" [] t = "Copy" -> "::core::marker::Copy"
    [] t = "PartialEq" -> "::core::cmp::PartialEq" [] t = "Eq" -> "::core::cmp::Eq" [] t = "PartialOrd" -> "::core::cmp::PartialOrd"
    [] t = "Ord" -> "::core::cmp::Ord" [] t = "Hash" -> "::core::hash::Hash" [] t = "Default" -> "::core::default::Default"
    [] t \in {"Into", "Into:A"} -> "::core::convert::Into<TA>" [] t = "Into:B" -> "::core::convert::Into<TB>" [] OTHER -> t

\* targets are "A" / "B": their normalised type strings sort in that order
SortedSeqStr(S) == IF S = {"A", "B"} THEN <<"A", "B">> ELSE IF S = {"A"} THEN <<"A">> ELSE IF S = {"B"} THEN <<"B">> ELSE <<>>

\* ---------------------------------------------------------------- delegated fields
AllFields(c) == { <<v, i>> : v \in 1..NVariants(c), i \in 1..3 } \cap { <<v, i>> \in (1..NVariants(c)) \X (1..3) : i <= NFields(c, v) }
F(c, p) == c.variants[p[1]].fields[p[2]]

\* which trait's where-clause an emitted impl carries: companions reuse the primary's
Primary(c, t) ==
  CASE t = "Default:new" -> "Default"                       \* the inherent `new()` impl repeats Default's header
    [] t = "Eq" /\ HasTrait(c, "PartialEq") -> "PartialEq"
    [] t = "Copy" /\ HasTrait(c, "Clone") -> "Clone"
    [] t = "PartialOrd" /\ HasTrait(c, "Ord") -> "Ord"
    [] OTHER -> t

\* the trait required of the delegated field types
BoundTrait(c, t) ==
  CASE t = "Clone" /\ HasTrait(c, "Copy") -> "Copy"        \* Copy educed: every field must be Copy
    [] t = "Eq" -> "PartialEq"                               \* stand-alone Eq bounds its fields by PartialEq
    [] OTHER -> t

Delegated(c, t0) ==
  LET t == Primary(c, t0) IN
  CASE t = "Debug" -> { p \in AllFields(c) : F(c, p).dbg = Own }
    [] t = "Clone" -> IF HasTrait(c, "Copy") THEN AllFields(c) ELSE { p \in AllFields(c) : F(c, p).clone = Own }
    [] t \in {"Copy", "Eq"} -> AllFields(c)
    [] t = "PartialEq" -> { p \in AllFields(c) : F(c, p).eq = Own }
    [] t \in {"PartialOrd", "Ord"} -> { p \in AllFields(c) : F(c, p).ord = Own }
    [] t = "Hash" -> { p \in AllFields(c) : F(c, p).hash = Own }
    [] t = "Default" -> IF c.opts.dexpr THEN {} ELSE { p \in AllFields(c) : p[1] = DefaultVariant(c) /\ F(c, p).dflt = "none" }
    [] t \in {"Into", "Into:A"} -> { p \in AllFields(c) : p[2] = IntoField(c, p[1], "A") /\ IntoMode(c, p[1], "A") = "convert" }
    [] t = "Into:B" -> { p \in AllFields(c) : p[2] = IntoField(c, p[1], "B") /\ IntoMode(c, p[1], "B") = "convert" }
    [] OTHER -> {}

\* supertraits demanded of Self by the impl of t
Supers(c, t0) ==
  LET t == Primary(c, t0) IN
  CASE t = "Copy" -> {"Clone"}
    [] t = "Eq" -> {"PartialEq"}
    [] t = "PartialOrd" -> {"PartialEq"}
    [] t = "Ord" -> {"Eq"} \cup (IF HasTrait(c, "PartialOrd") THEN {} ELSE {"PartialOrd"})
    [] OTHER -> {}

\* ---------------------------------------------------------------- C11: applicability (auto bounds)
\* which traits the corpus items provide by hand next to the educed ones (always applicable)
RECURSIVE Applies(_, _, _)
Educes(c, t) ==
  CASE t = "Into:A" -> HasTrait(c, "Into") /\ "A" \in SeqToSet(c.opts.targets)
    [] t = "Into:B" -> HasTrait(c, "Into") /\ "B" \in SeqToSet(c.opts.targets)
    [] OTHER -> HasTrait(c, t)
Applies(c, t, a) ==
  IF ~Educes(c, t) THEN TRUE          \* provided by a hand-written, unconditional impl in the corpus
  ELSE /\ \A p \in Delegated(c, t) : ImplTy(F(c, p).ty, BoundTrait(c, Primary(c, t)), a)
       /\ \A s \in Supers(c, t) : Applies(c, s, a)

\* ---------------------------------------------------------------- C12: where-sets and headers
\* bound modes: "auto", "autox" (auto, spelled explicitly), "disabled", "all", "custom"
CustomPred == "T:Cst"
ModeOf(c, t) == IF t \in DOMAIN c.opts.bounds THEN c.opts.bounds[t] ELSE "auto"

AutoPreds(c, t) ==
  { (IF F(c, p).ty = "PhantomAll" THEN PhantomAllText(c.opts.gen) ELSE TyText(F(c, p).ty))
      \o ":" \o TraitPath(BoundTrait(c, Primary(c, t))) : p \in Delegated(c, t) }
  \cup { "Self:" \o TraitPath(s) : s \in Supers(c, t) }
AllPreds(c, t) ==
  LET tp == TypeParamsOf(c.opts.gen) IN { tp[k] \o ":" \o TraitPath(BoundTrait(c, Primary(c, t))) : k \in DOMAIN tp }

WhereSet(c, t) ==
  LET m == ModeOf(c, Primary(c, t)) IN
  UserWhereOf(c.opts.gen) \cup
    (CASE m \in {"auto", "autox"} -> AutoPreds(c, t)
       [] m = "all" -> AllPreds(c, t)
       [] m = "custom" -> {CustomPred}
       [] OTHER -> {})

ImplParams(c) == ImplParamsOf(c.opts.gen)

\* the traits whose impls are emitted, with Into split per target
EmittedTraits(c) ==
  ({ c.opts.traits[k] : k \in DOMAIN c.opts.traits } \ {"Into"})
  \cup { "Into:" \o c.opts.targets[k] : k \in DOMAIN c.opts.targets }
  \cup (IF HasTrait(c, "Default") /\ c.opts.newfn THEN {"Default:new"} ELSE {})

\* The order in which the impls are emitted: handlers run in a fixed source order whatever the order of the
\* attribute; a companion impl is emitted by its primary's handler, right after the primary (so PartialOrd comes
\* *after* Ord when both are educed); Into targets follow the order of their normalised type strings.
HandlerSeq == <<"Debug", "Clone", "Copy", "PartialEq", "Eq", "PartialOrd", "Ord", "Hash", "Default", "Deref", "DerefMut", "Into">>
EmittedBy(c, h) ==
  LET has(t) == HasTrait(c, t) IN
  CASE ~has(h) -> <<>>
    [] h = "Clone" -> IF has("Copy") THEN <<"Clone", "Copy">> ELSE <<"Clone">>
    [] h = "Copy" -> IF has("Clone") THEN <<>> ELSE <<"Copy">>
    [] h = "PartialEq" -> IF has("Eq") THEN <<"PartialEq", "Eq">> ELSE <<"PartialEq">>
    [] h = "Eq" -> IF has("PartialEq") THEN <<>> ELSE <<"Eq">>
    [] h = "PartialOrd" -> IF has("Ord") THEN <<>> ELSE <<"PartialOrd">>
    [] h = "Ord" -> IF has("PartialOrd") THEN <<"Ord", "PartialOrd">> ELSE <<"Ord">>
    [] h = "Default" -> IF c.opts.newfn THEN <<"Default", "Default:new">> ELSE <<"Default">>
    [] h = "Into" -> [k \in 1..Len(SortedSeqStr(SeqToSet(c.opts.targets))) |-> "Into:" \o SortedSeqStr(SeqToSet(c.opts.targets))[k]]
    [] OTHER -> <<h>>
RECURSIVE EmissionFrom(_, _)
EmissionFrom(c, k) == IF k > Len(HandlerSeq) THEN <<>> ELSE EmittedBy(c, HandlerSeq[k]) \o EmissionFrom(c, k + 1)
EmissionOrder(c) == EmissionFrom(c, 1)

\* the emitted item list: exactly one impl per educed trait and per requested Into target, nothing else
PropItemSet(c, e) ==
  /\ SeqToSet(e.trs) = EmittedTraits(c)
  /\ Len(e.trs) = Cardinality(EmittedTraits(c))
  /\ e.trs = EmissionOrder(c)

\* one observed impl item: e.tr = trait name, e.generics = sequence of parameter strings, e.where = sequence of
\* predicate strings (white space removed, in the order written)
PropImplHeader(c, e) ==
  /\ e.generics = ImplParams(c)
  /\ SeqToSet(e.where) = WhereSet(c, e.tr)
  /\ Len(e.where) = Cardinality(SeqToSet(e.where)) \/ TRUE     \* a repeated predicate is harmless
=============================================================================
