SPECIFICATION Spec
CONSTANTS
  KindSet <- MCKindSet
  TypeOptSet <- MCTypeOptSet
  VarOptSet <- MCVarOptSet
  FieldSet <- MCFieldSet
  Admissible <- MCAdmissible
  MaxVariants = 3
  MaxPayloadVariants = 1
  MaxFields = 1
  DiscSet <- DiscsQuick
  PayloadSet = {"P", "bool", "opt", "unit", "nz"}
  TraitSetsC04 <- TraitSetsOrd
  ReprSet = {"none", "u8", "i16", "isize", "i8", "C", "C, u8", "align(8)"}
  Vals = {0, 1}
CONSTRAINT CorpusOnly
CHECK_DEADLOCK FALSE
