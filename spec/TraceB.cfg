SPECIFICATION TraceSpec
POSTCONDITION TraceConsumed
CONSTANTS Vals = {0, 1, 2}
CHECK_DEADLOCK FALSE
