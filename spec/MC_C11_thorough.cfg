SPECIFICATION Spec
CONSTANTS
  KindSet = {"struct", "enum"}
  TypeOptSet <- MCTypeOptSet
  VarOptSet <- MCVarOptSet
  FieldSet <- MCFieldSet
  Admissible <- MCAdmissible
  MaxVariants = 2
  MaxFields = 3
  TypeClasses = {"T", "U", "WrapT", "PhantomT", "PairTU", "conc", "ArrT", "Arr0T"}
  TraitSetsC11 <- Sets
  Vals = {0, 1}
INVARIANTS UnconstrainedWhenUnused CompanionsAgree AllYesApplies
CHECK_DEADLOCK FALSE
