------------------------------- MODULE MC_C02 -------------------------------
(***************************************************************************)
(* C02: PartialEq is exactly field-wise equality over the compared fields. *)
(* Bounded instance: every struct / enum shape within the bounds, every    *)
(* {own, ignore, method} assignment, parameters carried by PartialEq(..)   *)
(* or (with Eq educed) by Eq(..); every ordered pair of values; the        *)
(* emitted algorithm is run as a step machine.                             *)
(***************************************************************************)
EXTENDS EduceRun, EduceBuild

CONSTANTS MaxLawFields   \* law triples are only enumerated for variants this small

VARIABLE run
vars == <<cfg, phase, run>>

NoRun == [op |-> "none"]

MCKindSet == {"struct", "enum"}
MCTypeOptSet(k) ==
  { [DefOpts EXCEPT !.traits = <<"PartialEq">>],
    [DefOpts EXCEPT !.traits = <<"PartialEq", "Eq">>, !.eqvia = "Eq"] }
MCVarOptSet(c) ==
  { [DefVariant EXCEPT !.style = s] :
      s \in IF c.kind = "struct" THEN Styles ELSE Styles }
CONSTANT Narrow   \* TRUE: at most one variant wider than two fields (quick instance); FALSE: no such restriction
MCFieldSet(c) ==
  IF NVariants(c) > 0 /\ Narrow /\ ~MayWiden(c) THEN {}
  ELSE WithRef(c, { [DefField EXCEPT !.eq = t] : t \in Treatments })
MCAdmissible(c) == Narrow => WideOK(c)

\* State-space reductions for the design-level run (the implementation corpus is
\* not reduced).  (1) Which attribute name carried the parameters is an
\* expansion-time matter and does not reach the run-time machine, so only the
\* PartialEq-spelled twin of each configuration is run.  (2) For operands of
\* different variants the machine returns before reading any field, so one
\* representative pair per ordered pair of variants is run.
MinVal == CHOOSE x \in Vals : \A y \in Vals : x <= y
RunHere(c) == c.opts.eqvia = "PartialEq"
Representative(a, b) ==
  \/ a.v = b.v
  \/ /\ \A i \in DOMAIN a.f : a.f[i] = MinVal
     /\ \A i \in DOMAIN b.f : b.f[i] = MinVal

Init == BuildInit /\ run = NoRun

Begin(op, a, b) ==
  /\ phase = "sealed"
  /\ run = NoRun
  /\ run' = [op |-> op, a |-> a, b |-> b, pc |-> 1, calls |-> <<>>,
             done |-> FALSE, ret |-> FALSE]
  /\ UNCHANGED <<cfg, phase>>

Step ==
  /\ run # NoRun
  /\ ~run.done
  /\ run' = ImplEqStep(cfg, run)
  /\ UNCHANGED <<cfg, phase>>

Return ==
  /\ run # NoRun
  /\ run.done
  /\ run' = NoRun
  /\ UNCHANGED <<cfg, phase>>

DoStart      == (\E k \in KindSet : \E o \in TypeOptSet(k) : Start(k, o)) /\ UNCHANGED run
DoAddVariant == (\E vo \in VarOptSet(cfg) : AddVariant(vo)) /\ UNCHANGED run
DoAddField   == (\E f \in FieldSet(cfg) : AddField(f)) /\ UNCHANGED run
DoSeal       == Seal /\ UNCHANGED run
DoBegin ==
  /\ phase = "sealed"
  /\ RunHere(cfg)
  /\ \E a \in Values(cfg) : \E b \in Values(cfg) : Representative(a, b) /\ Begin("eq", a, b)

Next == DoStart \/ DoAddVariant \/ DoAddField \/ DoSeal \/ DoBegin \/ Step \/ Return

Spec == Init /\ [][Next]_vars

\* ------------------------------------------------------------ properties
Finished == run # NoRun /\ run.done

\* the emitted algorithm computes the declarative meaning
ImplMeetsDecl == Finished => (run.ret = EqDecl(cfg, run.a, run.b))

\* the emitted algorithm's own call log is admitted by the verdict predicate
ImplMeetsProp == Finished => PropEq(cfg, run.a, run.b, run.calls, run.ret)

\* ignored fields never influence the result: changing only ignored fields of
\* either operand leaves the declarative result unchanged
SameOnCompared(c, x, y) ==
  /\ x.v = y.v
  /\ \A i \in EqCompared(c, x.v) : x.f[i] = y.f[i]
IgnoredIrrelevant ==
  Finished =>
    \A a2 \in ValuesOfVariant(cfg, run.a.v, Vals) :
      SameOnCompared(cfg, run.a, a2) => (EqDecl(cfg, a2, run.b) = run.ret)

\* laws, for well-behaved field relations, over all values of small shapes
Small(c) == \A v \in 1..NVariants(c) : NFields(c, v) <= MaxLawFields
LawEq(c, a, b) == EqDeclWith(c, a, b, LawFieldEq)
Laws ==
  (phase = "sealed" /\ run = NoRun /\ Small(cfg)) =>
    LET V == Values(cfg) IN
      /\ \A a \in V : LawEq(cfg, a, a)
      /\ \A a \in V : \A b \in V : LawEq(cfg, a, b) => LawEq(cfg, b, a)
      /\ \A a \in V : \A b \in V : \A d \in V :
           (LawEq(cfg, a, b) /\ LawEq(cfg, b, d)) => LawEq(cfg, a, d)

\* corpus-only exploration (used where only the configurations are wanted, not the run machine): states in which a
\* run has begun are not expanded
CorpusOnly == run = NoRun
=============================================================================
