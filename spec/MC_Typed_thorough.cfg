SPECIFICATION Spec
CONSTANTS
  MaxDepth = 3
  Mode = "typed"
  Contexts = {"field", "into_target", "variant_field", "tuple_field", "into_dup"}
INVARIANTS TypeOK TypedSane
CHECK_DEADLOCK FALSE
