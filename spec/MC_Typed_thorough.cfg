SPECIFICATION Spec
CONSTANTS
  MaxDepth = 3
  Mode = "typed"
  Contexts = {"field", "into_target", "variant_field", "tuple_field"}
INVARIANTS TypeOK TypedSane
CHECK_DEADLOCK FALSE
