SPECIFICATION Spec
CONSTANTS
  KindSet <- MCKindSet
  TypeOptSet <- MCTypeOptSet
  VarOptSet <- MCVarOptSet
  FieldSet <- MCFieldSet
  Admissible <- MCAdmissible
  MaxVariants = 2
  MaxFields = 3
  MaxDeviations = 3
  Vals = {0, 1}
INVARIANTS ResolveMeetsDecl
CHECK_DEADLOCK FALSE
