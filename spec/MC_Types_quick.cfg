SPECIFICATION Spec
CONSTANTS
  MaxDepth = 2
  Contexts = {"field", "into_target", "variant_field", "tuple_field"}
INVARIANTS TypeOK
CHECK_DEADLOCK FALSE
