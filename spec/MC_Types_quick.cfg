SPECIFICATION Spec
CONSTANTS
  MaxDepth = 2
  Mode = "syntax"
  Contexts = {"field", "into_target", "variant_field", "tuple_field", "into_dup"}
INVARIANTS TypeOK TypedSane
CHECK_DEADLOCK FALSE
