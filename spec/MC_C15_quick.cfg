SPECIFICATION Spec
CONSTANTS
  KindSet = {"struct", "enum"}
  TypeOptSet <- MultiTypeOptSet
  VarOptSet <- MultiVarOptSet
  FieldSet <- MultiFieldSet
  Admissible <- MultiAdmissible
  MaxVariants = 2
  MaxFields = 3
  MaxDeviations = 2
  EnumDeviations = 1
  TraitSets <- TraitSetsQuick
  MultiRanks <- NegRank
  Vals = {0, 1}
INVARIANTS PlanIndependent RestrictAdmissible
CHECK_DEADLOCK FALSE
