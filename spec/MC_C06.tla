------------------------------- MODULE MC_C06 -------------------------------
(***************************************************************************)
(* C06: Debug renders the effective shape exactly like core::fmt's         *)
(* builders.  The run "machine" here is the builder protocol: begin        *)
(* (choose builder from name/style), one step per shown field, finish.     *)
(***************************************************************************)
EXTENDS EduceRun, EduceBuild

CONSTANTS EnumSecondField,  \* treatments on offer to the second field of an enum variant
          MaxDeviations     \* bound on the number of non-default settings per configuration

VARIABLE run
vars == <<cfg, phase, run>>
NoRun == [op |-> "none"]

MCKindSet == {"struct", "enum"}
MCTypeOptSet(k) ==
  IF k = "struct"
  THEN { [DefOpts EXCEPT !.traits = <<"Debug">>, !.dname = n, !.dnf = d] :
            n \in {"default", "off", "on", "custom"}, d \in {"default", "true", "false"} }
  ELSE { [DefOpts EXCEPT !.traits = <<"Debug">>, !.dname = n] : n \in {"default", "on", "custom"} }

\* Both variants of an enum may carry settings (what one variant leaves behind in the handler's loop only shows in the
\* next one); the space is kept small by the deviation budget, applied while the configuration is built.
B2N(b) == IF b THEN 1 ELSE 0
\* all settings of one field count as one deviation (so that a field with both a rename and a method still
\* fits next to one more setting elsewhere); likewise the settings of one variant, and the type's
FieldDev(f) == B2N(f.dbg # Own \/ f.key # "" \/ f.ty # "P")
RECURSIVE FieldsDev(_)
FieldsDev(fs) == IF fs = <<>> THEN 0 ELSE FieldDev(Head(fs)) + FieldsDev(Tail(fs))
VarDev(var) == B2N(var.dname # "default" \/ var.dnf # "default") + FieldsDev(var.fields)
RECURSIVE VarsDev(_)
VarsDev(vs) == IF vs = <<>> THEN 0 ELSE VarDev(Head(vs)) + VarsDev(Tail(vs))
Deviations(c) == B2N(c.opts.dname # "default" \/ c.opts.dnf # "default") + VarsDev(c.variants)

MCVarOptSet(c) ==
  IF c.kind = "struct" THEN { [DefVariant EXCEPT !.style = s] : s \in Styles }
  ELSE { vo \in { [DefVariant EXCEPT !.style = s, !.dname = n, !.dnf = d] :
                    s \in Styles, n \in {"default", "off", "custom"}, d \in {"default", "true", "false"} } :
           Deviations(c) + VarDev(vo) <= MaxDeviations }

FullFields == { [DefField EXCEPT !.dbg = t, !.key = k] : t \in Treatments, k \in {"", "k"} }
MCFieldSet(c) ==
  IF NVariants(c) = 0 THEN {}
  ELSE LET lv == Last(c.variants)
           offer == IF c.kind = "enum" /\ Len(lv.fields) >= 1
                    THEN { [DefField EXCEPT !.dbg = t] : t \in EnumSecondField }
                    ELSE FullFields
       IN { f \in WithRef(c, offer) : Deviations(c) + FieldDev(f) <= MaxDeviations }

\* bounding the number of settings that deviate from the default by t explores every interaction of up to t settings
\* (t-way coverage) instead of the full cross product
MCBoundOK(c) ==
  /\ NVariants(c) >= 1
  /\ Deviations(c) <= MaxDeviations
  /\ \A v \in 1..NVariants(c) :
       /\ c.variants[v].style = "unit" => c.variants[v].dnf = "default"
       /\ \A i \in FieldIdx(c, v) : c.variants[v].fields[i].dbg = Ignore => c.variants[v].fields[i].key = ""
\* nothing to print (no name and no shown field), or a rename on a field that is shown positionally
MCSemOK(c) == DebugPrintable(c)
MCAdmissible(c) == MCBoundOK(c) /\ MCSemOK(c)
DoSealBad == SealBad(MCBoundOK, MCSemOK) /\ UNCHANGED run

Init == BuildInit /\ run = NoRun

Names(c, v) == [type |-> "T", fields |-> [i \in FieldIdx(c, v) |-> "f" \o ToString(i)]]

\* builder protocol: kind of builder, entries written so far
Begin(a, alt) ==
  /\ run = NoRun
  /\ run' = [op |-> "fmt", a |-> a, alt |-> alt, pc |-> 1, calls |-> <<>>, done |-> FALSE]
  /\ UNCHANGED <<cfg, phase>>

DoStart      == (\E k \in KindSet : \E o \in TypeOptSet(k) : Start(k, o)) /\ UNCHANGED run
DoAddVariant == (\E vo \in VarOptSet(cfg) : AddVariant(vo)) /\ UNCHANGED run
DoAddField   == (\E f \in FieldSet(cfg) : AddField(f)) /\ UNCHANGED run
DoSeal       == Seal /\ UNCHANGED run
DoBegin      == phase = "sealed" /\ \E a \in Values(cfg) : \E alt \in BOOLEAN : Begin(a, alt)
Step ==
  /\ run # NoRun /\ ~run.done
  /\ LET shown == SortedSeq(DbgShown(cfg, run.a.v)) IN
       run' = IF run.pc > Len(shown) THEN [run EXCEPT !.done = TRUE]
              ELSE [run EXCEPT !.pc = @ + 1,
                               !.calls = Append(@, <<"fmt", DbgVia(cfg, run.a.v, shown[run.pc]), "a",
                                                     shown[run.pc], run.a.f[shown[run.pc]], 0>>)]
  /\ UNCHANGED <<cfg, phase>>
Return ==
  /\ run # NoRun /\ run.done
  /\ run' = NoRun
  /\ UNCHANGED <<cfg, phase>>

Next == DoStart \/ DoAddVariant \/ DoAddField \/ DoSeal \/ DoSealBad \/ DoBegin \/ Step \/ Return
Spec == Init /\ [][Next]_vars

Finished == run # NoRun /\ run.done

ImplMeetsProp == Finished => DbgCallsOK(cfg, run.a, run.calls)

\* something is always printed, and values that differ in a shown field print
\* differently while ignored fields never show
TextSane ==
  (phase = "sealed" /\ run = NoRun) =>
    \A x \in Values(cfg) : \A y \in Values(cfg) : \A alt \in BOOLEAN :
      LET tx == RenderDebug(cfg, x, Names(cfg, x.v), alt)
          ty == RenderDebug(cfg, y, Names(cfg, y.v), alt)
      IN /\ tx # ""
         /\ (x.v = y.v /\ \A i \in DbgShown(cfg, x.v) : x.f[i] = y.f[i]) => tx = ty
         /\ (x.v = y.v /\ \E i \in DbgShown(cfg, x.v) : x.f[i] # y.f[i]) => tx # ty
\* corpus-only exploration (used where only the configurations are wanted, not the run machine): states in which a
\* run has begun are not expanded
CorpusOnly == run = NoRun
=============================================================================
