------------------------------ MODULE EduceTypes ------------------------------
(***************************************************************************)
(* The grammar of type expressions a user can write where the macro reads  *)
(* a type: as the type of a field and as the target of `Into(<type>)`.     *)
(* A type expression is built by actions (a leaf, then wrappers around it, *)
(* up to MaxDepth), the way the other models build configurations; the     *)
(* text is what the harness renders.  The handlers look *into* types in a  *)
(* few places (dereference() for the Into hash key, the Copy/Clone bound    *)
(* synthesis over field types, PhantomData detection), so the syntactic    *)
(* class of a type is an input dimension of its own.                        *)
(*                                                                          *)
(* The classes follow syn::Type: Array, BareFn, ImplTrait, Infer, Macro,    *)
(* Never, Paren, Path (plain, generic, qualified self), Ptr, Reference      *)
(* (with/without lifetime, mut), Slice, TraitObject (one bound, several     *)
(* bounds, with a parenthesised-fn bound), Tuple (unit, 1, 2).              *)
(***************************************************************************)
EXTENDS Naturals, Sequences, FiniteSets, TLC, Json

CONSTANTS MaxDepth, Contexts

Leaves ==
  { "u8", "T", "Self", "aa::Bb<u8>", "<T as Tr>::Out", "!", "_", "()", "mac!()", "str",
    "dyn Tr", "dyn Tr + Sync", "dyn Fn() -> u8 + Sync", "impl Tr", "fn() -> u8", "fn(u8, ...)", "PhantomData<T>",
    "dyn for<'x> Fn(&'x u8) + 'static", "[u8; { 1 + 1 }]" }

Wrappers == { "ref", "ref_static", "ref_mut_a", "paren", "tuple1", "tuple2", "array", "slice", "ptr_const", "ptr_mut",
              "option", "boxed", "fn_arg", "fn_ret", "assoc" }

Wrap(w, x) ==
  CASE w = "ref"        -> "&" \o x
    [] w = "ref_static" -> "&'static " \o x
    [] w = "ref_mut_a"  -> "&'a mut " \o x
    [] w = "paren"      -> "(" \o x \o ")"
    [] w = "tuple1"     -> "(" \o x \o ",)"
    [] w = "tuple2"     -> "(" \o x \o ", u8)"
    [] w = "array"      -> "[" \o x \o "; 2]"
    [] w = "slice"      -> "[" \o x \o "]"
    [] w = "ptr_const"  -> "*const " \o x
    [] w = "ptr_mut"    -> "*mut " \o x
    [] w = "option"     -> "Option<" \o x \o ">"
    [] w = "boxed"      -> "::std::boxed::Box<" \o x \o ">"
    [] w = "fn_arg"     -> "fn(" \o x \o ") -> u8"
    [] w = "fn_ret"     -> "fn() -> " \o x
    [] w = "assoc"      -> "<" \o x \o " as Tr>::Out"

VARIABLES ty, wraps, phase
vars == <<ty, wraps, phase>>

Init == ty = "" /\ wraps = <<>> /\ phase = "leaf"

PickLeaf == phase = "leaf" /\ \E x \in Leaves : ty' = x /\ wraps' = <<>> /\ phase' = "wrap"

ApplyWrap(w) ==
  /\ phase = "wrap" /\ Len(wraps) < MaxDepth
  /\ ty' = Wrap(w, ty) /\ wraps' = Append(wraps, w) /\ phase' = "wrap"

\* the macro is total on it whatever the context; nothing else is predicted here
Emit ==
  /\ phase = "wrap"
  /\ phase' = "done" /\ UNCHANGED <<ty, wraps>>
  /\ \A c \in Contexts : PrintT(<<"TYEXPR", ToJson([ty |-> ty, wraps |-> wraps, ctx |-> c])>>)

Next == PickLeaf \/ (\E w \in Wrappers : ApplyWrap(w)) \/ Emit
Spec == Init /\ [][Next]_vars
TypeOK == Len(wraps) <= MaxDepth
=============================================================================
