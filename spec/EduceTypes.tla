------------------------------ MODULE EduceTypes ------------------------------
(***************************************************************************)
(* The grammar of type expressions a user can write where the macro reads  *)
(* a type: as the type of a field and as the target of `Into(<type>)`.     *)
(* A type expression is built by actions (a leaf, then wrappers around it, *)
(* up to MaxDepth), the way the other models build configurations; the     *)
(* text is what the harness renders.  The handlers look *into* types in a  *)
(* few places (dereference() for the Into hash key, the Copy/Clone bound    *)
(* synthesis over field types, PhantomData detection), so the syntactic    *)
(* class of a type is an input dimension of its own.                        *)
(*                                                                          *)
(* The classes follow syn::Type: Array, BareFn, ImplTrait, Infer, Macro,    *)
(* Never, Paren, Path (plain, generic, qualified self), Ptr, Reference      *)
(* (with/without lifetime, mut), Slice, TraitObject (one bound, several     *)
(* bounds, with a parenthesised-fn bound), Tuple (unit, 1, 2).              *)
(***************************************************************************)
EXTENDS Naturals, Sequences, FiniteSets, TLC, Json

CONSTANTS MaxDepth, Contexts,
          Mode        \* "syntax": every syntactic class, expectation: total (C17)
                      \* "typed" : well-typed, Sized field types with the set of std traits they implement; expectation:
                      \*           educing exactly those traits is accepted and compiles cleanly (C01)

Leaves ==
  { "u8", "T", "Self", "aa::Bb<u8>", "<T as Tr>::Out", "!", "_", "()", "mac!()", "str",
    "dyn Tr", "dyn Tr + Sync", "dyn Fn() -> u8 + Sync", "impl Tr", "fn() -> u8", "fn(u8, ...)", "PhantomData<T>",
    "dyn for<'x> Fn(&'x u8) + 'static", "[u8; { 1 + 1 }]" }

Wrappers == { "ref", "ref_static", "ref_mut_a", "paren", "tuple1", "tuple2", "array", "slice", "ptr_const", "ptr_mut",
              "option", "boxed", "fn_arg", "fn_ret", "assoc" }

Wrap(w, x) ==
  CASE w = "ref"        -> "&" \o x
    [] w = "ref_static" -> "&'static " \o x
    [] w = "ref_mut_a"  -> "&'a mut " \o x
    [] w = "paren"      -> "(" \o x \o ")"
    [] w = "tuple1"     -> "(" \o x \o ",)"
    [] w = "tuple2"     -> "(" \o x \o ", u8)"
    [] w = "array"      -> "[" \o x \o "; 2]"
    [] w = "slice"      -> "[" \o x \o "]"
    [] w = "ptr_const"  -> "*const " \o x
    [] w = "ptr_mut"    -> "*mut " \o x
    [] w = "option"     -> "Option<" \o x \o ">"
    [] w = "boxed"      -> "::std::boxed::Box<" \o x \o ">"
    [] w = "fn_arg"     -> "fn(" \o x \o ") -> u8"
    [] w = "fn_ret"     -> "fn() -> " \o x
    [] w = "assoc"      -> "<" \o x \o " as Tr>::Out"

\* ---- the typed fragment: which of the derivable std traits a type implements (a small type-class table)
Nine == {"Debug", "Clone", "Copy", "PartialEq", "Eq", "PartialOrd", "Ord", "Hash", "Default"}
FnSup == {"Debug", "Clone", "Copy", "Hash"}
Cmp6 == {"Debug", "PartialEq", "Eq", "PartialOrd", "Ord", "Hash"}
TypedLeaves ==
  [ty : {"u8"}, sup : {Nine}] \cup [ty : {"()"}, sup : {Nine}] \cup [ty : {"&'static str"}, sup : {Nine}]
  \cup [ty : {"T"}, sup : {Nine}] \cup [ty : {"PhantomData<T>"}, sup : {Nine}] \cup [ty : {"Bb<u8>"}, sup : {Nine}]
  \* (function pointers do implement the comparison traits, but rustc lints on comparing them: that is the user's
  \*  choice, not the macro's, so the model does not ask for it)
  \cup [ty : {"fn() -> u8"}, sup : {FnSup}] \cup [ty : {"*const u8"}, sup : {Nine \ {"Default"}}]
  \cup [ty : {"for<'x> fn(&'x u8) -> &'x u8"}, sup : {FnSup}]
  \cup [ty : {"f32"}, sup : {{"Debug", "Clone", "Copy", "PartialEq", "PartialOrd", "Default"}}]
  \cup [ty : {"String"}, sup : {Nine \ {"Copy"}}]
TypedWrappers == {"ref_static", "ref_mut_a", "paren", "tuple1", "tuple2", "array", "option", "boxed", "ptr_const", "fn_arg", "slice_ref"}
WrapT(w, x) == IF w = "slice_ref" THEN "&'static [" \o x \o "]" ELSE Wrap(w, x)
SupAfter(w, sup) ==
  CASE w = "ref_static" -> (sup \cap Cmp6) \cup {"Clone", "Copy"}
    [] w = "slice_ref"  -> (sup \cap Cmp6) \cup {"Clone", "Copy", "Default"}
    [] w = "ref_mut_a"  -> sup \cap Cmp6
    [] w \in {"paren", "tuple1", "tuple2", "array"} -> sup
    [] w = "option"     -> sup \cup {"Default"}
    [] w = "boxed"      -> sup \ {"Copy"}
    [] w = "ptr_const" -> Nine \ {"Default"}
    [] w = "fn_arg" -> FnSup

VARIABLES ty, wraps, phase, sup, leaf
vars == <<ty, wraps, phase, sup, leaf>>
LeafOf == leaf

Init == ty = "" /\ wraps = <<>> /\ phase = "leaf" /\ sup = {} /\ leaf = ""
\* well-formedness of the user's own type: a `'static` reference cannot point at data that only lives for 'a
HasA == \E i \in DOMAIN wraps : wraps[i] = "ref_mut_a"
WellFormedWrap(w) == (w \in {"ref_static", "slice_ref"}) => ~HasA

PickLeaf ==
  /\ phase = "leaf" /\ wraps' = <<>> /\ phase' = "wrap"
  /\ IF Mode = "typed" THEN \E x \in TypedLeaves : ty' = x.ty /\ sup' = x.sup /\ leaf' = x.ty
     ELSE \E x \in Leaves : ty' = x /\ sup' = {} /\ leaf' = x

ApplyWrap(w) ==
  /\ phase = "wrap" /\ Len(wraps) < MaxDepth
  /\ IF Mode = "typed" THEN w \in TypedWrappers /\ WellFormedWrap(w) /\ ty' = WrapT(w, ty) /\ sup' = SupAfter(w, sup)
     ELSE w \in Wrappers /\ ty' = Wrap(w, ty) /\ sup' = sup
  /\ wraps' = Append(wraps, w) /\ phase' = "wrap" /\ UNCHANGED leaf

\* the macro is total on it whatever the context; the one further prediction: naming the same type twice as an Into
\* target (context "into_dup": on the type, or on one field) is refused, however the type is written
Emit ==
  /\ phase = "wrap"
  /\ phase' = "done" /\ UNCHANGED <<ty, wraps, sup, leaf>>
  /\ IF Mode = "typed"
     THEN PrintT(<<"TYTYPED", ToJson([ty |-> ty, wraps |-> wraps, leaf |-> LeafOf, sup |-> [t \in Nine |-> t \in sup]])>>)
     ELSE \A c \in Contexts : PrintT(<<"TYEXPR", ToJson([ty |-> ty, wraps |-> wraps, ctx |-> c])>>)

Next == PickLeaf \/ (\E w \in Wrappers \cup TypedWrappers : ApplyWrap(w)) \/ Emit
Spec == Init /\ [][Next]_vars
TypeOK == Len(wraps) <= MaxDepth
\* every typed expression implements at least Debug and the equality/ordering family or is a float
TypedSane == (Mode = "typed" /\ phase # "leaf") => "Debug" \in sup
=============================================================================
