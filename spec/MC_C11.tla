------------------------------- MODULE MC_C11 -------------------------------
(***************************************************************************)
(* C11: automatic bounds are exactly those the generated code needs.       *)
(* Generic items over <T, U>; per trait set, the fields' type classes and  *)
(* the attributes that decide delegation vary; Applies(c, t, args) is the  *)
(* specification of "the impl applies to Type<args>".  The harness asks    *)
(* the real compiler for every (type, trait, argument assignment).         *)
(***************************************************************************)
EXTENDS EduceBounds, EduceBuild

CONSTANTS TypeClasses, TraitSetsC11

vars == <<cfg, phase>>

Sets ==
  { <<"Debug">>, <<"Clone">>, <<"Clone", "Copy">>, <<"Copy">>, <<"PartialEq">>, <<"PartialEq", "Eq">>, <<"Eq">>,
    <<"PartialEq", "PartialOrd">>, <<"PartialEq", "Eq", "PartialOrd", "Ord">>, <<"PartialEq", "Eq", "Ord">>,
    <<"Hash">>, <<"Default">>, <<"Into">>,
    \* Ord alone, next to hand-written unconditional PartialEq / Eq / PartialOrd: its own bounds in isolation
    <<"Ord">> }

\* Debug has one code path per (shape, named_field) combination: vary named_field for it
MCTypeOptSet(k) ==
  { o \in { [DefOpts EXCEPT !.traits = ts, !.gen = "TU", !.targets = tg, !.dnf = d] :
              ts \in TraitSetsC11, d \in {"default", "true", "false"}, tg \in {<<>>, <<"A">>, <<"A", "B">>} } :
      /\ o.dnf # "default" => (o.traits = <<"Debug">> /\ k = "struct")
      /\ (o.traits = <<"Into">>) = (o.targets # <<>>) }
MCVarOptSet(c) ==
  { [DefVariant EXCEPT !.style = s, !.dflt = m, !.dnf = d] :
      s \in {"named", "tuple"}, m \in (IF c.kind = "enum" /\ HasTrait(c, "Default") THEN BOOLEAN ELSE {FALSE}),
      d \in (IF c.kind = "enum" /\ c.opts.traits = <<"Debug">> /\ NVariants(c) = 0 THEN {"default", "true", "false"} ELSE {"default"}) }

\* treatments that decide delegation, for the trait set at hand
Choices(c) ==
  LET has(t) == HasTrait(c, t) IN
  { [DefField EXCEPT !.ty = ty, !.dbg = d, !.clone = cl, !.eq = e, !.ord = o, !.rank = rk, !.hash = h, !.into = m] :
      ty \in TypeClasses \cup (IF has("Into") THEN {"A"} ELSE {}),
      d \in (IF has("Debug") THEN Treatments ELSE {Own}),
      cl \in (IF has("Clone") /\ ~(c.kind = "struct" /\ has("Copy")) THEN {Own, Method} ELSE {Own}),
      e \in (IF has("PartialEq") /\ Len(c.opts.traits) <= 2 THEN Treatments ELSE {Own}),
      o \in (IF has("PartialOrd") \/ has("Ord") THEN Treatments ELSE {Own}),
      \* an explicit rank next to any treatment (an ignored field with a rank is still not delegated)
      rk \in (IF has("PartialOrd") \/ has("Ord") THEN {NoRank, 2} ELSE {NoRank}),
      h \in (IF has("Hash") THEN Treatments ELSE {Own}),
      m \in (IF ~has("Into") THEN { <<>> }
             ELSE IF Len(c.opts.targets) = 1 THEN { <<>>, <<[t |-> "A", m |-> FALSE]>>, <<[t |-> "A", m |-> TRUE]>> }
             \* two targets: one field serves both, or this field serves A only and the next one B
             ELSE { <<[t |-> "A", m |-> FALSE], [t |-> "B", m |-> FALSE]>>, <<[t |-> "A", m |-> TRUE], [t |-> "B", m |-> FALSE]>>,
                    <<[t |-> "A", m |-> FALSE]>>, <<[t |-> "A", m |-> TRUE]>> }) }

PhantomField == [DefField EXCEPT !.ty = "PhantomAll"]
\* the last field of the first variant is a PhantomData mentioning every parameter (so that the item is
\* well-formed whatever the other fields are); it is an ordinary, delegated field
\* bounded instance (pruned while building): the first variant has one field with every choice, optionally
\* a second plain field (struct only), then the phantom; the second variant of an enum is `V2(T)` or `V2(U)`
PlainFields(c) == { [DefField EXCEPT !.ty = ty] : ty \in {"T", "U"} }
\* the field that serves the second target when the first field does not (its own type parameter, so that what
\* one target's impl requires can be told from what the other's does)
BFields(c) == { [DefField EXCEPT !.ty = ty, !.into = <<[t |-> "B", m |-> FALSE]>>] : ty \in {"T", "U"} }
TwoTargets(c) == HasTrait(c, "Into") /\ Len(c.opts.targets) = 2
ServesB(f) == \E k \in DOMAIN f.into : f.into[k].t = "B"
MCFieldSet(c) ==
  IF NVariants(c) = 0 THEN {}
  ELSE LET lv == Last(c.variants)
           n == Len(lv.fields) IN
    IF n > 0 /\ Last(lv.fields).ty = "PhantomAll" THEN {}
    ELSE IF NVariants(c) = 2 THEN (IF n = 0 /\ lv.style = "tuple" /\ ~lv.dflt THEN PlainFields(c) ELSE {})
    ELSE IF n = 0 THEN Choices(c) \cup {PhantomField}
    ELSE IF n = 1 /\ TwoTargets(c) /\ ~ServesB(lv.fields[1]) THEN BFields(c)
    ELSE IF n = 1 /\ c.kind = "struct" /\ ~TwoTargets(c) THEN PlainFields(c) \cup {PhantomField}
    ELSE {PhantomField}

MCAdmissible(c) ==
  /\ NVariants(c) >= 1
  /\ NFields(c, 1) >= 1 /\ Last(c.variants[1].fields).ty = "PhantomAll"
  /\ \A v \in 2..NVariants(c) : NFields(c, v) >= 1
  /\ HasTrait(c, "Default") => DefaultWellDesignated(c)
  /\ HasTrait(c, "Into") => /\ IntoDesignated(c)
                             \* a conversion is asked of a bare type parameter (or is the identity): anything else
                             \* (u8: Into<TA>) would be the user's own ill-typed input
                             /\ \A v \in 1..NVariants(c) : \A k \in DOMAIN c.opts.targets :
                                   LET t == c.opts.targets[k] IN
                                     IntoMode(c, v, t) = "convert" => c.variants[v].fields[IntoField(c, v, t)].ty \in {"T", "U"}
  /\ (HasTrait(c, "PartialOrd") \/ HasTrait(c, "Ord")) => RanksUnique(c)

Init == BuildInit

ArgSets == { [T |-> x, U |-> y] : x \in BOOLEAN, y \in BOOLEAN }

Emit ==
  /\ phase = "sealed"
  /\ phase' = "emitted"
  /\ UNCHANGED cfg

DoStart      == \E k \in KindSet : \E o \in TypeOptSet(k) : Start(k, o)
DoAddVariant == \E vo \in VarOptSet(cfg) : AddVariant(vo)
DoAddField   == \E f \in FieldSet(cfg) : AddField(f)
Next == DoStart \/ DoAddVariant \/ DoAddField \/ Seal \/ Emit
Spec == Init /\ [][Next]_vars

\* type parameters that occur only in ignored / method-handled / unused fields are never constrained:
\* if no delegated field mentions a parameter, the verdict does not depend on it
Mentions(ty, x) ==
  CASE x = "T" -> ty \in {"T", "WrapT", "PairTU", "ArrT", "Arr0T"} [] OTHER -> ty \in {"U", "PairTU"}
RECURSIVE AllDelegated(_, _)
AllDelegated(c, t) == Delegated(c, t) \cup UNION { AllDelegated(c, s) : s \in { s \in Supers(c, t) : HasTrait(c, s) } }
UnconstrainedWhenUnused ==
  phase = "sealed" =>
    \A k \in DOMAIN cfg.opts.traits :
      LET t == cfg.opts.traits[k] IN
        /\ (\A p \in AllDelegated(cfg, t) : ~Mentions(F(cfg, p).ty, "T")) =>
              \A a \in ArgSets : Applies(cfg, t, a) = Applies(cfg, t, [a EXCEPT !.T = ~@])
        /\ (\A p \in AllDelegated(cfg, t) : ~Mentions(F(cfg, p).ty, "U")) =>
              \A a \in ArgSets : Applies(cfg, t, a) = Applies(cfg, t, [a EXCEPT !.U = ~@])
\* companions apply to exactly the same instantiations as their primary
CompanionsAgree ==
  phase = "sealed" =>
    \A a \in ArgSets :
      /\ (HasTrait(cfg, "PartialEq") /\ HasTrait(cfg, "Eq")) => Applies(cfg, "Eq", a) = Applies(cfg, "PartialEq", a)
      /\ (HasTrait(cfg, "Clone") /\ HasTrait(cfg, "Copy")) => Applies(cfg, "Copy", a) = Applies(cfg, "Clone", a)
      /\ (HasTrait(cfg, "Ord") /\ HasTrait(cfg, "PartialOrd")) => Applies(cfg, "PartialOrd", a) = Applies(cfg, "Ord", a)
\* with every argument implementing everything, every impl applies
AllYesApplies ==
  phase = "sealed" => \A k \in DOMAIN cfg.opts.traits : Applies(cfg, cfg.opts.traits[k], [T |-> TRUE, U |-> TRUE])
=============================================================================
