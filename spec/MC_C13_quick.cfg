SPECIFICATION Spec
CONSTANTS
  ValSet <- ValsQuick
  Contexts <- ContextsQuick
INVARIANTS MachineMeetsTable Terminates
CHECK_DEADLOCK FALSE
