SPECIFICATION Spec
CONSTANTS
  ValSet <- ValsQuick
  Contexts <- ContextsQuickAll
INVARIANTS MachineMeetsTable Terminates
CHECK_DEADLOCK FALSE
