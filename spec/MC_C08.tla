------------------------------- MODULE MC_C08 -------------------------------
(***************************************************************************)
(* C08: Default builds exactly the designated value.                       *)
(* Level X of this trait is a designation machine: scan variants for the   *)
(* marker, scan the designated variant's fields for their sources; it is   *)
(* modelled by the plan operators of EduceRun and stepped here field by    *)
(* field.                                                                  *)
(***************************************************************************)
EXTENDS EduceRun, EduceBuild

CONSTANTS StructSources, EnumSources   \* <<ty, dflt>> pairs on offer per kind

VARIABLE run
vars == <<cfg, phase, run>>
NoRun == [op |-> "none"]

AllSources ==
  { <<"P", d>> : d \in {"none", "expr"} \cup LitKinds } \cup { <<"nat", d>> : d \in {"none"} \cup LitKinds }
MidSources == { <<"P", "none">>, <<"P", "int">>, <<"P", "str">>, <<"P", "char">>, <<"P", "expr">>, <<"nat", "int">>, <<"nat", "bool">> }
FewSources == { <<"P", "none">>, <<"P", "int">>, <<"P", "int8">>, <<"P", "str">>, <<"P", "expr">>, <<"nat", "int">> }

MCKindSet == {"struct", "enum", "union"}
MCTypeOptSet(k) ==
  \* Debug may be educed alongside: the renderer then stacks Debug attributes of
  \* its own around the Default ones (separate #[educe] attributes, either order)
  { [DefOpts EXCEPT !.traits = t, !.newfn = n, !.dexpr = x] :
       t \in { <<"Default">>, <<"Debug", "Default">> },
       n \in (IF k = "struct" THEN BOOLEAN ELSE {TRUE}), x \in BOOLEAN }

\* enum: the default variant is rich, the others plain
MCVarOptSet(c) ==
  IF c.kind = "enum"
  THEN { [DefVariant EXCEPT !.style = s, !.dflt = m] : s \in Styles, m \in BOOLEAN }
  ELSE { [DefVariant EXCEPT !.style = s] : s \in (IF c.kind = "union" THEN {"named"} ELSE Styles) }

Src(c) == IF c.kind = "struct" THEN StructSources ELSE EnumSources
MCFieldSet(c) ==
  IF NVariants(c) = 0 THEN {}
  ELSE LET lv == Last(c.variants) IN
    \* under a type-level expression no field attribute is allowed: the attributed fields on offer here only ever reach
    \* the refused corpus (SealBad)
    IF c.opts.dexpr THEN {DefField, [DefField EXCEPT !.dflt = "int"]} \cup (IF c.kind = "union" THEN {[DefField EXCEPT !.deref = TRUE]} ELSE {})
    ELSE IF c.kind = "union"
    THEN { [DefField EXCEPT !.ty = s[1], !.dflt = s[2], !.deref = m] : s \in EnumSources, m \in BOOLEAN }
    ELSE IF c.kind = "enum" /\ ~lv.dflt /\ MaxVariants > 1 /\ (NVariants(c) > 1 \/ TRUE)
    THEN IF Len(lv.fields) < 1 THEN {DefField} \cup (IF NVariants(c) = 1 THEN { [DefField EXCEPT !.ty = s[1], !.dflt = s[2]] : s \in EnumSources } ELSE {}) ELSE {}
    ELSE { [DefField EXCEPT !.ty = s[1], !.dflt = s[2]] : s \in Src(c) }

MCBoundOK(c) ==
  /\ c.opts.dexpr => NVariants(c) >= 1      \* the rendered type-level expression builds the last variant
  \* a marker flag next to an expression on the same union field is redundant: keep one form
  /\ c.kind = "union" => \A i \in FieldIdx(c, 1) : ~(c.variants[1].fields[i].deref /\ c.variants[1].fields[i].dflt # "none")
  \* harness limit: a union is observed through its first field, so all its fields are probes
  /\ c.kind = "union" => \A i \in FieldIdx(c, 1) : c.variants[1].fields[i].ty = "P"
  /\ (c.kind = "union" \/ c.opts.dexpr) => ~HasTrait(c, "Debug")
  /\ c.kind # "union" => \A v \in 1..NVariants(c) : \A i \in FieldIdx(c, v) : ~c.variants[v].fields[i].deref
  \* a single-variant enum may or may not carry the marker; a non-designated variant carries no field attribute
  \* bounded instance: the non-designated variants of an enum are `V` or `V(P)`
  /\ (c.kind = "enum" /\ NVariants(c) > 1) =>
        \A v \in 1..NVariants(c) : (c.opts.dexpr \/ ~c.variants[v].dflt) =>
           (c.variants[v].style = "unit" \/ (c.variants[v].style = "tuple" /\ NFields(c, v) = 1))
\* a missing or duplicated default variant / union field; attributes where nothing is built
MCSemOK(c) == DefaultWellDesignated(c)
MCAdmissible(c) == MCBoundOK(c) /\ MCSemOK(c)
\* the refused corpus is kept small: every variant has at most one field and at most one field has a source
NSources(c) == Cardinality({ <<v, i>> \in (1..NVariants(c)) \X (1..2) : i <= NFields(c, v) /\ c.variants[v].fields[i].dflt # "none" })
MCNegBound(c) ==
  /\ MCBoundOK(c)
  /\ \A v \in 1..NVariants(c) : NFields(c, v) <= 1
  /\ NSources(c) <= 1
  /\ ~c.opts.newfn \/ c.kind # "struct"
  /\ ~HasTrait(c, "Debug")
DoSealBad == SealBad(MCNegBound, MCSemOK) /\ UNCHANGED run

Init == BuildInit /\ run = NoRun

\* designation machine: pc 0 = choose variant, then one step per field
Begin ==
  /\ run = NoRun
  /\ run' = [op |-> "default", v |-> 0, pc |-> 0, res |-> <<>>, done |-> FALSE]
  /\ UNCHANGED <<cfg, phase>>

DoStart      == (\E k \in KindSet : \E o \in TypeOptSet(k) : Start(k, o)) /\ UNCHANGED run
DoAddVariant == (\E vo \in VarOptSet(cfg) : AddVariant(vo)) /\ UNCHANGED run
DoAddField   == (\E f \in FieldSet(cfg) : AddField(f)) /\ UNCHANGED run
DoSeal       == Seal /\ UNCHANGED run
DoBegin      == phase = "sealed" /\ Begin
Step ==
  /\ run # NoRun /\ ~run.done
  /\ run' =
       IF cfg.opts.dexpr THEN [run EXCEPT !.done = TRUE, !.v = DefaultPlan(cfg)[1], !.res = DefaultPlan(cfg)[2]]
       ELSE IF run.pc = 0 THEN [run EXCEPT !.pc = 1, !.v = IF cfg.kind = "union" THEN 1 ELSE DefaultVariant(cfg)]
       ELSE IF cfg.kind = "union"
            THEN [run EXCEPT !.done = TRUE,
                             !.res = <<DefaultFieldPlan(cfg.variants[1].fields[UnionDefaultField(cfg)], UnionDefaultField(cfg))>>]
       ELSE IF run.pc > NFields(cfg, run.v) THEN [run EXCEPT !.done = TRUE]
       ELSE [run EXCEPT !.pc = @ + 1,
                        !.res = Append(@, DefaultFieldPlan(cfg.variants[run.v].fields[run.pc], run.pc))]
  /\ UNCHANGED <<cfg, phase>>
Return ==
  /\ run # NoRun /\ run.done
  /\ run' = NoRun
  /\ UNCHANGED <<cfg, phase>>

Next == DoStart \/ DoAddVariant \/ DoAddField \/ DoSeal \/ DoSealBad \/ DoBegin \/ Step \/ Return
Spec == Init /\ [][Next]_vars

Finished == run # NoRun /\ run.done
ImplMeetsPlan == Finished => <<run.v, run.res>> = DefaultPlan(cfg)
\* the designated variant is the marked one, or the only one
DesignationSound ==
  (Finished /\ cfg.kind = "enum" /\ ~cfg.opts.dexpr) =>
     (cfg.variants[run.v].dflt \/ NVariants(cfg) = 1)
\* corpus-only exploration (used where only the configurations are wanted, not the run machine): states in which a
\* run has begun are not expanded
CorpusOnly == run = NoRun
=============================================================================
