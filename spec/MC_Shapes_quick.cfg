SPECIFICATION Spec
CONSTANTS
  MaxVariants = 2
  MaxArity = 2
  TraitSets = {"Debug", "Clone", "CopyClone", "PartialEq", "PartialEqEq", "PartialOrd", "Ord", "Hash", "Default", "Deref", "DerefDerefMut", "DerefMut", "Into", "All"}
INVARIANTS TypeOK
CHECK_DEADLOCK FALSE
