------------------------------- MODULE MC_C01 -------------------------------
(***************************************************************************)
(* C01: every accepted derive request expands to code that compiles        *)
(* without errors or warnings.  This instance enumerates the multi-trait   *)
(* configurations the specification calls acceptable (EduceMulti); the     *)
(* harness compiles each with the real compiler.  (Generic headers and     *)
(* bound modes come from the MC_C12 corpus, #[repr] and discriminants from *)
(* MC_C04, single-trait shapes from MC_C02..C10: each of those checks      *)
(* reports an item that does not compile cleanly as a violation too.)      *)
(***************************************************************************)
EXTENDS EduceMulti

vars == <<cfg, phase>>

\* the explicit rank used by the `rank` tweak: negative, so that sign handling is exercised in every spelling
NegRank == {-3}

AllEight == <<"Debug", "Clone", "PartialEq", "Eq", "PartialOrd", "Ord", "Hash", "Default">>
WithCopy == <<"Debug", "Clone", "Copy", "PartialEq", "Eq", "PartialOrd", "Ord", "Hash", "Default">>
Reordered == <<"Default", "Hash", "Ord", "PartialOrd", "Eq", "PartialEq", "Clone", "Debug">>
TraitSetsQuick == { AllEight }
TraitSetsThorough == { AllEight, WithCopy, Reordered, <<"Debug", "PartialEq", "PartialOrd">>, <<"Hash", "Clone", "Copy", "Default">> }

Init == BuildInit
Emit == phase = "sealed" /\ phase' = "emitted" /\ UNCHANGED cfg
DoStart      == \E k \in KindSet : \E o \in TypeOptSet(k) : Start(k, o)
DoAddVariant == \E vo \in VarOptSet(cfg) : AddVariant(vo)
DoAddField   == \E f \in FieldSet(cfg) : AddField(f)
Next == DoStart \/ DoAddVariant \/ DoAddField \/ Seal \/ Emit
Spec == Init /\ [][Next]_vars

\* what is sealed is acceptable by every per-trait specification
SealedIsAcceptable == phase = "sealed" => MultiAdmissible(cfg)
=============================================================================
