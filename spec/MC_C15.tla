------------------------------- MODULE MC_C15 -------------------------------
(***************************************************************************)
(* C15: each trait's impl depends only on that trait's own attributes      *)
(* (apart from the three documented couplings).                            *)
(* For every multi-trait configuration c and every educed trait t the      *)
(* specification builds Restrict(c, t): only t and its coupled partners    *)
(* stay educed, every other trait's type-, variant- and field-level        *)
(* settings are reset.  TLC checks that t's *plan* is the same in both;    *)
(* the harness expands both and compares t's impl items token for token.   *)
(***************************************************************************)
EXTENDS EduceMulti

vars == <<cfg, phase>>

\* the explicit rank used by the `rank` tweak: negative, so that sign handling is exercised in every spelling
NegRank == {-3}

AllEight == <<"Debug", "Clone", "PartialEq", "Eq", "PartialOrd", "Ord", "Hash", "Default">>
WithCopy == <<"Debug", "Clone", "Copy", "PartialEq", "Eq", "PartialOrd", "Ord", "Hash", "Default">>
Alone == <<"Debug", "PartialEq", "PartialOrd", "Hash", "Clone">>   \* primaries without their partners: their own parsers run
TraitSetsQuick == { AllEight, Alone }
TraitSetsThorough == { AllEight, WithCopy, Alone }

\* the documented couplings
Partners(t) ==
  CASE t = "Clone" -> {"Copy"} [] t = "Copy" -> {"Clone"}
    [] t = "PartialEq" -> {"Eq"} [] t = "Eq" -> {"PartialEq"}
    [] t = "PartialOrd" -> {"Ord"} [] t = "Ord" -> {"PartialOrd"}
    [] OTHER -> {}
Kept(c, t) == {t} \cup (Partners(t) \cap SeqToSet(c.opts.traits))

\* keep a field setting only if the trait it belongs to is kept
RestrictField(f, K) ==
  [f EXCEPT !.eq = IF "PartialEq" \in K THEN @ ELSE Own,
            !.ord = IF K \cap {"PartialOrd", "Ord"} # {} THEN @ ELSE Own,
            !.rank = IF K \cap {"PartialOrd", "Ord"} # {} THEN @ ELSE NoRank,
            !.hash = IF "Hash" \in K THEN @ ELSE Own,
            !.dbg = IF "Debug" \in K THEN @ ELSE Own,
            !.key = IF "Debug" \in K THEN @ ELSE "",
            !.clone = IF "Clone" \in K THEN @ ELSE Own,
            !.dflt = IF "Default" \in K THEN @ ELSE "none"]
RestrictVariant(var, K) ==
  [var EXCEPT !.dname = IF "Debug" \in K THEN @ ELSE "default",
              !.dnf = IF "Debug" \in K THEN @ ELSE "default",
              !.dflt = IF "Default" \in K THEN @ ELSE FALSE,
              !.fields = [i \in DOMAIN var.fields |-> RestrictField(var.fields[i], K)]]
Restrict(c, t) ==
  LET K == Kept(c, t) IN
    [c EXCEPT !.opts = [@ EXCEPT !.traits = SeqFilter(c.opts.traits, K),
                                 !.dname = IF "Debug" \in K THEN @ ELSE "default",
                                 !.dnf = IF "Debug" \in K THEN @ ELSE "default",
                                 !.newfn = IF "Default" \in K THEN @ ELSE FALSE,
                                 !.eqvia = IF {"PartialEq", "Eq"} \subseteq K THEN @ ELSE "PartialEq",
                                 !.ordvia = IF {"PartialOrd", "Ord"} \subseteq K THEN @ ELSE
                                            (IF "PartialOrd" \in K /\ "Ord" \notin K THEN "PartialOrd" ELSE "Ord")],
              !.variants = [v \in DOMAIN c.variants |-> RestrictVariant(c.variants[v], K)]]

\* the plan of trait t as far as the run-time specification defines it
PlanOf(c, t) ==
  CASE t \in {"PartialEq", "Eq"} -> [v \in 1..NVariants(c) |-> [i \in FieldIdx(c, v) |-> EqVia(c, v, i)]]
    [] t \in {"PartialOrd", "Ord"} -> [v \in 1..NVariants(c) |-> <<OrdOrder(c, v), [i \in FieldIdx(c, v) |-> OrdVia(c, v, i)]>>]
    [] t = "Hash" -> [v \in 1..NVariants(c) |-> [i \in FieldIdx(c, v) |-> HashVia(c, v, i)]]
    [] t \in {"Clone", "Copy"} -> [v \in 1..NVariants(c) |-> [i \in FieldIdx(c, v) |-> CloneVia(c, v, i)]]
    [] t = "Debug" -> [v \in 1..NVariants(c) |->
                         <<EffName(c, v, [type |-> "T", fields |-> [i \in FieldIdx(c, v) |-> "f"]]), EffNamed(c, v),
                           [i \in FieldIdx(c, v) |-> <<DbgVia(c, v, i), c.variants[v].fields[i].key>>]>>]
    [] t = "Default" -> <<c.opts.newfn, [v \in 1..NVariants(c) |-> <<c.variants[v].dflt, [i \in FieldIdx(c, v) |-> c.variants[v].fields[i].dflt]>>]>>
    [] OTHER -> <<>>

Init == BuildInit

Emit ==
  /\ phase = "sealed"
  /\ phase' = "emitted"
  /\ UNCHANGED cfg
  /\ PrintT(<<"PAIRS", ToJson([cfg |-> cfg,
                               pairs |-> [k \in DOMAIN cfg.opts.traits |->
                                            [t |-> cfg.opts.traits[k], restricted |-> Restrict(cfg, cfg.opts.traits[k])]]])>>)

DoStart      == \E k \in KindSet : \E o \in TypeOptSet(k) : Start(k, o)
DoAddVariant == \E vo \in VarOptSet(cfg) : AddVariant(vo)
DoAddField   == \E f \in FieldSet(cfg) : AddField(f)
Next == DoStart \/ DoAddVariant \/ DoAddField \/ Seal \/ Emit
Spec == Init /\ [][Next]_vars

\* t's plan is a function of t's own (and its partners') settings
PlanIndependent ==
  phase = "sealed" =>
    \A k \in DOMAIN cfg.opts.traits :
       LET t == cfg.opts.traits[k] IN PlanOf(cfg, t) = PlanOf(Restrict(cfg, t), t)
\* restriction keeps the configuration acceptable
RestrictAdmissible ==
  phase = "sealed" => \A k \in DOMAIN cfg.opts.traits : MultiAdmissible(Restrict(cfg, cfg.opts.traits[k]))
=============================================================================
