SPECIFICATION Spec
CONSTANTS
  KindSet <- MCKindSet
  TypeOptSet <- MCTypeOptSet
  VarOptSet <- MCVarOptSet
  FieldSet <- MCFieldSet
  Admissible <- MCAdmissible
  MaxVariants = 3
  MaxFields = 2
  StructSources <- AllSources
  EnumSources <- MidSources
  Vals = {0, 1}
INVARIANTS ImplMeetsPlan DesignationSound
CHECK_DEADLOCK FALSE
