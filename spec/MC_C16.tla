------------------------------- MODULE MC_C16 -------------------------------
(***************************************************************************)
(* C16: expansion is deterministic.                                        *)
(* Level X emission model: handlers run in a fixed source order; the Into  *)
(* handler emits one impl per requested target, iterating its target map.  *)
(* Two expansions of the same input are run side by side (self-            *)
(* composition).  In the "ordered" configuration the map iterates in key   *)
(* order and the two item sequences always coincide; in the "hashed"       *)
(* configuration (what iterating a HashMap means: any permutation) TLC     *)
(* produces the two-target counterexample -- kept as a regression test of  *)
(* the model itself (MC_C16_hashed.cfg is expected to FAIL).               *)
(* Process history: each of the two expansions runs in a process that has  *)
(* expanded some other input before (hist1 / hist2: nothing, or an enum of *)
(* the same name whose discriminants need another integer width).  With    *)
(* Memo = "none" nothing survives an expansion; with Memo = "by_name" (a   *)
(* per-process cache keyed by the type name -- MC_C16_memo.cfg, expected   *)
(* to FAIL) the width emitted for the ordering impls comes from the first  *)
(* expansion of that name.                                                  *)
(***************************************************************************)
EXTENDS Naturals, Sequences, FiniteSets, TLC, Json

CONSTANTS MaxTargets,     \* targets are 1..MaxTargets (u8, u16, u32, u64)
          MapOrder,       \* "ordered" | "hashed"
          OtherTraits,    \* sets of other traits educed alongside (fixed order Debug < Clone < ...)
          Memo            \* "none" | "by_name": what a process remembers from earlier expansions

HandlerOrder == <<"Debug", "Clone", "Copy", "PartialEq", "Eq", "PartialOrd", "Ord", "Hash", "Default", "Deref", "DerefMut", "Into">>

VARIABLES input, hq1, hq2, todo1, todo2, items1, items2, phase, hist1, hist2
vars == <<input, hq1, hq2, todo1, todo2, items1, items2, phase, hist1, hist2>>
Widths == {8, 16}
NoHist == 0

Init ==
  /\ input = [targets |-> {}, others |-> {}, kind |-> "struct", width |-> 8]
  /\ hist1 = NoHist /\ hist2 = NoHist
  /\ hq1 = <<>> /\ hq2 = <<>> /\ todo1 = {} /\ todo2 = {}
  /\ items1 = <<>> /\ items2 = <<>>
  /\ phase = "choose"

Handlers(inp) ==
  LET want == inp.others \cup (IF inp.targets # {} THEN {"Into"} ELSE {})
      F[i \in 0..Len(HandlerOrder)] ==
        IF i = 0 THEN <<>> ELSE IF HandlerOrder[i] \in want THEN Append(F[i - 1], HandlerOrder[i]) ELSE F[i - 1]
  IN F[Len(HandlerOrder)]

Choose ==
  /\ phase = "choose"
  /\ \E ts \in SUBSET (1..MaxTargets) : \E os \in OtherTraits : \E k \in {"struct", "enum"} : \E w \in Widths :
       /\ (ts # {} \/ os # {})
       /\ (k = "struct" => w = 8)
       /\ input' = [targets |-> ts, others |-> os, kind |-> k, width |-> w]
       /\ hq1' = Handlers(input') /\ hq2' = Handlers(input')
       /\ PrintT(<<"INPUT", ToJson([targets |-> [i \in 1..MaxTargets |-> i \in ts],
                                    others |-> [i \in DOMAIN HandlerOrder |-> HandlerOrder[i] \in os], kind |-> k, width |-> w])>>)
  /\ todo1' = {} /\ todo2' = {} /\ items1' = <<>> /\ items2' = <<>>
  /\ hist1' \in {NoHist} \cup Widths /\ hist2' \in {NoHist} \cup Widths     \* what each process expanded before under the same name
  /\ phase' = "run"

\* one expansion step: run the next handler; the Into handler emits its targets one by one
NextTarget(todo) ==
  IF MapOrder = "ordered" THEN { CHOOSE t \in todo : \A u \in todo : t <= u } ELSE todo

\* the ordering impls of an enum mention the discriminant integer type
EmittedWidth(h, hist) ==
  IF h \in {"PartialOrd", "Ord"} /\ input.kind = "enum"
  THEN (IF Memo = "by_name" /\ hist # NoHist THEN hist ELSE input.width)
  ELSE 0

Step(hq, todo, items, hist, hqN, todoN, itemsN) ==
  IF hq = <<>> THEN FALSE
  ELSE IF Head(hq) # "Into"
  THEN hqN = Tail(hq) /\ todoN = todo /\ itemsN = Append(items, <<Head(hq), EmittedWidth(Head(hq), hist)>>)
  ELSE IF todo = {} /\ ~\E k \in DOMAIN items : items[k][1] = "Into"
  THEN hqN = hq /\ todoN = input.targets /\ itemsN = items        \* load the target map
  ELSE IF todo = {} THEN hqN = Tail(hq) /\ todoN = {} /\ itemsN = items
  ELSE \E t \in NextTarget(todo) : hqN = hq /\ todoN = todo \ {t} /\ itemsN = Append(items, <<"Into", t>>)

Step1 == phase = "run" /\ Step(hq1, todo1, items1, hist1, hq1', todo1', items1') /\ UNCHANGED <<input, hq2, todo2, items2, phase, hist1, hist2>>
Step2 == phase = "run" /\ Step(hq2, todo2, items2, hist2, hq2', todo2', items2') /\ UNCHANGED <<input, hq1, todo1, items1, phase, hist1, hist2>>

Next == Choose \/ Step1 \/ Step2
Spec == Init /\ [][Next]_vars

Done1 == phase = "run" /\ hq1 = <<>>
Done2 == phase = "run" /\ hq2 = <<>>
\* the same input always yields the same items in the same order
Deterministic == (Done1 /\ Done2) => items1 = items2
\* exactly one Into impl per requested target and nothing else
IntoExactlyRequested ==
  Done1 => { items1[k][2] : k \in { j \in DOMAIN items1 : items1[j][1] = "Into" } } = input.targets
=============================================================================
