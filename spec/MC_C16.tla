------------------------------- MODULE MC_C16 -------------------------------
(***************************************************************************)
(* C16: expansion is deterministic.                                        *)
(* Level X emission model: handlers run in a fixed source order; the Into  *)
(* handler emits one impl per requested target, iterating its target map.  *)
(* Two expansions of the same input are run side by side (self-            *)
(* composition).  In the "ordered" configuration the map iterates in key   *)
(* order and the two item sequences always coincide; in the "hashed"       *)
(* configuration (what iterating a HashMap means: any permutation) TLC     *)
(* produces the two-target counterexample -- kept as a regression test of  *)
(* the model itself (MC_C16_hashed.cfg is expected to FAIL).               *)
(***************************************************************************)
EXTENDS Naturals, Sequences, FiniteSets, TLC, Json

CONSTANTS MaxTargets,     \* targets are 1..MaxTargets (u8, u16, u32, u64)
          MapOrder,       \* "ordered" | "hashed"
          OtherTraits     \* sets of other traits educed alongside (fixed order Debug < Clone < ...)

HandlerOrder == <<"Debug", "Clone", "Copy", "PartialEq", "Eq", "PartialOrd", "Ord", "Hash", "Default", "Deref", "DerefMut", "Into">>

VARIABLES input, hq1, hq2, todo1, todo2, items1, items2, phase
vars == <<input, hq1, hq2, todo1, todo2, items1, items2, phase>>

Init ==
  /\ input = [targets |-> {}, others |-> {}, kind |-> "struct"]
  /\ hq1 = <<>> /\ hq2 = <<>> /\ todo1 = {} /\ todo2 = {}
  /\ items1 = <<>> /\ items2 = <<>>
  /\ phase = "choose"

Handlers(inp) ==
  LET want == inp.others \cup (IF inp.targets # {} THEN {"Into"} ELSE {})
      F[i \in 0..Len(HandlerOrder)] ==
        IF i = 0 THEN <<>> ELSE IF HandlerOrder[i] \in want THEN Append(F[i - 1], HandlerOrder[i]) ELSE F[i - 1]
  IN F[Len(HandlerOrder)]

Choose ==
  /\ phase = "choose"
  /\ \E ts \in SUBSET (1..MaxTargets) : \E os \in OtherTraits : \E k \in {"struct", "enum"} :
       /\ (ts # {} \/ os # {})
       /\ input' = [targets |-> ts, others |-> os, kind |-> k]
       /\ hq1' = Handlers(input') /\ hq2' = Handlers(input')
       /\ PrintT(<<"INPUT", ToJson([targets |-> [i \in 1..MaxTargets |-> i \in ts],
                                    others |-> [i \in DOMAIN HandlerOrder |-> HandlerOrder[i] \in os], kind |-> k])>>)
  /\ todo1' = {} /\ todo2' = {} /\ items1' = <<>> /\ items2' = <<>>
  /\ phase' = "run"

\* one expansion step: run the next handler; the Into handler emits its targets one by one
NextTarget(todo) ==
  IF MapOrder = "ordered" THEN { CHOOSE t \in todo : \A u \in todo : t <= u } ELSE todo

Step(hq, todo, items, hqN, todoN, itemsN) ==
  IF hq = <<>> THEN FALSE
  ELSE IF Head(hq) # "Into"
  THEN hqN = Tail(hq) /\ todoN = todo /\ itemsN = Append(items, <<Head(hq), 0>>)
  ELSE IF todo = {} /\ ~\E k \in DOMAIN items : items[k][1] = "Into"
  THEN hqN = hq /\ todoN = input.targets /\ itemsN = items        \* load the target map
  ELSE IF todo = {} THEN hqN = Tail(hq) /\ todoN = {} /\ itemsN = items
  ELSE \E t \in NextTarget(todo) : hqN = hq /\ todoN = todo \ {t} /\ itemsN = Append(items, <<"Into", t>>)

Step1 == phase = "run" /\ Step(hq1, todo1, items1, hq1', todo1', items1') /\ UNCHANGED <<input, hq2, todo2, items2, phase>>
Step2 == phase = "run" /\ Step(hq2, todo2, items2, hq2', todo2', items2') /\ UNCHANGED <<input, hq1, todo1, items1, phase>>

Next == Choose \/ Step1 \/ Step2
Spec == Init /\ [][Next]_vars

Done1 == phase = "run" /\ hq1 = <<>>
Done2 == phase = "run" /\ hq2 = <<>>
\* the same input always yields the same items in the same order
Deterministic == (Done1 /\ Done2) => items1 = items2
\* exactly one Into impl per requested target and nothing else
IntoExactlyRequested ==
  Done1 => { items1[k][2] : k \in { j \in DOMAIN items1 : items1[j][1] = "Into" } } = input.targets
=============================================================================
