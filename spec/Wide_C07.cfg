SPECIFICATION Spec
CONSTANTS
  Key = "clone"
  TraitList <- TraitsClone
  N = 12
  M = 258
  Vals = {0, 1}
INVARIANTS TypeOK
CHECK_DEADLOCK FALSE
