------------------------------- MODULE MC_C03 -------------------------------
(***************************************************************************)
(* C03: ordering is lexicographic over non-ignored fields in rank order;   *)
(* partial_cmp = Some(cmp) when both traits are educed; total-order laws.  *)
(* The cross-variant part (discriminants) is exercised with default        *)
(* discriminants here and in depth in MC_C04.                              *)
(***************************************************************************)
EXTENDS EduceRun, EduceBuild

CONSTANTS RankSet,          \* explicit ranks on offer to struct fields
          EnumRankSet,      \* explicit ranks on offer to enum fields
          SimpleStyles,     \* styles of the non-rich variants of an enum
          RichFields,       \* field bound of a "rich" struct (all treatments and ranks)
          EnumRichFields,   \* field bound of the rich variant of an enum
          MaxLawValues      \* law triples only for configurations with at most this many values

VARIABLE run
vars == <<cfg, phase, run>>
NoRun == [op |-> "none"]

RanksQuick == {-3, 2}
RanksThorough == {-3, 0, 2}
\* explicit ranks at the very bottom of the range, where they meet the implicit ones (isize::MIN + position):
\* MinRank itself and MinRank + 1
RanksEdge == {MinRank, MinRank + 1}
RanksEdgeEnum == {MinRank + 1}

\* the four ways ordering can be educed
MCKindSet == {"struct", "enum"}
MCTypeOptSet(k) ==
  { [DefOpts EXCEPT !.traits = <<"PartialEq", "PartialOrd">>, !.ordvia = "PartialOrd"],
    [DefOpts EXCEPT !.traits = <<"PartialEq", "Eq", "PartialOrd", "Ord">>, !.ordvia = "Ord"],
    [DefOpts EXCEPT !.traits = <<"PartialEq", "Eq", "PartialOrd", "Ord">>, !.ordvia = "PartialOrd"],
    [DefOpts EXCEPT !.traits = <<"PartialEq", "Eq", "Ord">>, !.ordvia = "Ord"] }

MCVarOptSet(c) == { [DefVariant EXCEPT !.style = s] : s \in Styles }

\* A variant is rich when it has two or more fields or a field with a
\* non-default ordering attribute.  At most one variant of an enum is rich
\* (any position); the others have at most one plain or method field.
IsRichField(f) == f.ord = Ignore \/ f.rank # NoRank
IsRich(var) == Len(var.fields) >= 2 \/ \E i \in DOMAIN var.fields : IsRichField(var.fields[i])
EarlierRich(c) == \E v \in 1..(NVariants(c) - 1) : IsRich(c.variants[v])

FullFields(k) == { [DefField EXCEPT !.ord = t, !.rank = r] :
                     t \in Treatments, r \in (IF k = "struct" THEN RankSet ELSE EnumRankSet) \cup {NoRank} }
PlainFields == { [DefField EXCEPT !.ord = t] : t \in {Own, Method} }

\* PairMode: the instance for what one variant leaves behind for the next -- an enum whose variants may *all* be
\* rich (up to RichFields fields each, every treatment, no explicit ranks)
CONSTANT PairMode
PairFields == { [DefField EXCEPT !.ord = t] : t \in Treatments }
MCFieldSet(c) ==
  IF NVariants(c) = 0 THEN {}
  ELSE LET lv == Last(c.variants) IN
    IF PairMode THEN (IF Len(lv.fields) < EnumRichFields THEN PairFields ELSE {})
    ELSE IF EarlierRich(c)
    THEN IF Len(lv.fields) < 1 THEN WithRef(c, PlainFields) ELSE {}
    ELSE IF Len(lv.fields) < (IF c.kind = "struct" THEN RichFields ELSE EnumRichFields) THEN WithRef(c, FullFields(c.kind)) ELSE {}

\* only configurations the macro must accept are sealed here (rank clashes
\* among compared fields are C13's business)
\* The spelling twin (parameters under PartialOrd(..) although Ord is educed)
\* and the Ord-without-educed-PartialOrd set are exercised on structs and
\* single-variant enums only; non-rich variants use SimpleStyles.
MCSemOK(c) == RanksUnique(c)
MCBoundOK(c) ==
  /\ TRUE
  /\ (c.opts.ordvia = "PartialOrd" /\ HasTrait(c, "Ord")) \/ ~HasTrait(c, "PartialOrd") => NVariants(c) <= 1
  /\ \A v \in 1..NVariants(c) :
        (NVariants(c) > 1 /\ ~IsRich(c.variants[v]) /\ \E w \in 1..NVariants(c) : w # v /\ IsRich(c.variants[w]))
           => c.variants[v].style \in SimpleStyles
MCAdmissible(c) == MCBoundOK(c) /\ MCSemOK(c)
DoSealBad == SealBad(MCBoundOK, MCSemOK) /\ UNCHANGED run

Init == BuildInit /\ run = NoRun

HasBoth(c) == HasTrait(c, "Ord")
OpsOf(c) == IF HasBoth(c) THEN {"cmp", "partial_cmp"} ELSE {"partial_cmp"}
\* incomparable values only make sense for a stand-alone PartialOrd
DomOf(c) == IF HasBoth(c) THEN Vals ELSE Vals \cup {NaN}

MinVal == CHOOSE x \in Vals : \A y \in Vals : x <= y
Representative(a, b) ==
  \/ a.v = b.v
  \/ /\ \A i \in DOMAIN a.f : a.f[i] = MinVal
     /\ \A i \in DOMAIN b.f : b.f[i] = MinVal
\* design-level reduction: the attribute name that carried the parameters does
\* not reach the run-time machine
RunHere(c) == ~(HasTrait(c, "PartialOrd") /\ HasTrait(c, "Ord") /\ c.opts.ordvia = "PartialOrd")

Begin(op, a, b) ==
  /\ run = NoRun
  /\ run' = [op |-> op, a |-> a, b |-> b, pc |-> 1, calls |-> <<>>, done |-> FALSE, ret |-> "Equal"]
  /\ UNCHANGED <<cfg, phase>>

DoStart      == (\E k \in KindSet : \E o \in TypeOptSet(k) : Start(k, o)) /\ UNCHANGED run
DoAddVariant == (\E vo \in VarOptSet(cfg) : AddVariant(vo)) /\ UNCHANGED run
DoAddField   == (\E f \in FieldSet(cfg) : AddField(f)) /\ UNCHANGED run
DoSeal       == Seal /\ UNCHANGED run
DoBegin ==
  /\ phase = "sealed"
  /\ RunHere(cfg)
  /\ \E op \in OpsOf(cfg) :
       \E a \in ValuesOver(cfg, DomOf(cfg)) : \E b \in ValuesOver(cfg, DomOf(cfg)) :
          Representative(a, b) /\ Begin(op, a, b)
Step ==
  /\ run # NoRun /\ ~run.done
  /\ run' = ImplCmpStep(cfg, run)
  /\ UNCHANGED <<cfg, phase>>
Return ==
  /\ run # NoRun /\ run.done
  /\ run' = NoRun
  /\ UNCHANGED <<cfg, phase>>

Next == DoStart \/ DoAddVariant \/ DoAddField \/ DoSeal \/ DoSealBad \/ DoBegin \/ Step \/ Return
Spec == Init /\ [][Next]_vars

\* ------------------------------------------------------------ properties
Finished == run # NoRun /\ run.done

ImplMeetsDecl == Finished => run.ret = CmpDecl(cfg, run.op, run.a, run.b)
ImplMeetsProp == Finished => PropCmp(cfg, run.op, run.a, run.b, run.calls, run.ret)

\* None only from an incomparable field reached before any decisive one
NoneOnlyFromNaN ==
  (Finished /\ run.ret = "None") =>
     \E i \in OrdCompared(cfg, run.a.v) : run.a.f[i] = NaN \/ run.b.f[i] = NaN

\* ignored fields never influence the result
SameOnCompared(c, x, y) ==
  /\ x.v = y.v
  /\ \A i \in OrdCompared(c, x.v) : x.f[i] = y.f[i]
IgnoredIrrelevant ==
  Finished =>
    \A a2 \in ValuesOfVariant(cfg, run.a.v, DomOf(cfg)) :
      SameOnCompared(cfg, run.a, a2) => CmpDecl(cfg, run.op, a2, run.b) = run.ret

\* total-order laws of cmp
Laws ==
  (phase = "sealed" /\ run = NoRun /\ HasBoth(cfg) /\ Cardinality(Values(cfg)) <= MaxLawValues) =>
    LET V == Values(cfg)
        C(a, b) == CmpDecl(cfg, "cmp", a, b)
    IN /\ \A a \in V : C(a, a) = "Equal"
       /\ \A a \in V : \A b \in V : C(a, b) = Reverse(C(b, a))
       /\ \A a \in V : \A b \in V : \A d \in V :
            (C(a, b) = "Less" /\ C(b, d) = "Less") => C(a, d) = "Less"
       /\ \A a \in V : \A b \in V : \A d \in V :
            (C(a, b) = "Equal" /\ C(b, d) = "Equal") => C(a, d) = "Equal"
\* corpus-only exploration (used where only the configurations are wanted, not the run machine): states in which a
\* run has begun are not expanded
CorpusOnly == run = NoRun
=============================================================================
