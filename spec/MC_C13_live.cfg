SPECIFICATION FairSpec
CONSTANTS
  ValSet <- ValsLive
  Contexts <- ContextsLive
PROPERTIES Termination
CHECK_DEADLOCK FALSE
