---------------------------- MODULE EduceShapes ----------------------------
(* Degenerate container shapes: what a user can write under #[derive(Educe)] when bodies, variants or field lists are
   EMPTY or nearly so (`struct T;`, `struct T();`, `struct T {}`, `enum T {}`, `enum T { A(), B {} }`, ...), crossed with
   every trait request.  The handlers special-case "exactly one field", "no fields", "unit variant" in many places
   (Deref / DerefMut / Into single-field shortcut, Default variant choice, Debug unit rendering); the macro must be
   total on every one of them (C17).  One behaviour = one item: PickKind, then AddPart* (one body for a struct, up to
   MaxVariants variants for an enum), then Emit for every trait set. *)
EXTENDS Naturals, Sequences, TLC, Json
CONSTANTS MaxVariants, MaxArity, TraitSets

Styles == {"unit", "tuple", "named"}
Parts == {[style |-> "unit", n |-> 0]} \cup [style : {"tuple", "named"}, n : 0..MaxArity]

VARIABLES kind, parts, phase
vars == <<kind, parts, phase>>

Init == kind = "" /\ parts = <<>> /\ phase = "kind"

PickKind(k) == phase = "kind" /\ kind' = k /\ parts' = <<>> /\ phase' = "parts"

AddPart(p) ==
  /\ phase = "parts"
  /\ IF kind = "struct" THEN Len(parts) = 0 ELSE Len(parts) < MaxVariants
  /\ parts' = Append(parts, p) /\ UNCHANGED <<kind, phase>>

\* a struct needs its one body; an enum may have no variants at all
Complete == IF kind = "struct" THEN Len(parts) = 1 ELSE TRUE

Emit ==
  /\ phase = "parts" /\ Complete
  /\ phase' = "done" /\ UNCHANGED <<kind, parts>>
  /\ \A t \in TraitSets : PrintT(<<"SHAPE", ToJson([kind |-> kind, parts |-> parts, traits |-> t])>>)

Next == (\E k \in {"struct", "enum"} : PickKind(k)) \/ (\E p \in Parts : AddPart(p)) \/ Emit
Spec == Init /\ [][Next]_vars

TypeOK == /\ kind \in {"", "struct", "enum"}
          /\ Len(parts) <= (IF kind = "struct" THEN 1 ELSE MaxVariants)
          /\ \A i \in DOMAIN parts : parts[i] \in Parts
\* the degenerate corner really is reached: some emitted item has a zero-field non-unit part (checked by the driver on
\* the emitted records, and here as a reachability witness that must be violated if asked for)
NoEmptyPart == ~(phase = "done" /\ \E i \in DOMAIN parts : parts[i].style # "unit" /\ parts[i].n = 0)
=============================================================================
