SPECIFICATION Spec
CONSTANTS
  KindSet = {"struct", "enum"}
  TypeOptSet <- MCTypeOptSet
  VarOptSet <- MCVarOptSet
  FieldSet <- MCFieldSet
  Admissible <- MCAdmissible
  MaxVariants = 2
  MaxFields = 3
  TraitSetsC12 <- Sets
  Modes = {"auto", "autox", "disabled", "all", "custom"}
  Vals = {0, 1}
INVARIANTS ModesHonoured CompanionsShare
CHECK_DEADLOCK FALSE
