------------------------------- MODULE EduceWide -------------------------------
(***************************************************************************)
(* Wide shapes: variants with many fields (two-digit positions: tuple      *)
(* fields 10, 11 -- where an index printed or sorted as text goes wrong)   *)
(* and enums with many variants.  The builder-based instances cannot reach *)
(* them (the cross product of per-field choices explodes), so these        *)
(* configurations are written down by formula: N plain fields, and the     *)
(* studied trait's treatment on a few chosen positions (first, a middle    *)
(* one-digit position, positions 10 and N).  They are emitted as CORPUS    *)
(* lines like any built configuration and judged by the same Prop*         *)
(* predicates; the harness draws a sparse set of values for them           *)
(* (all-low, all-high, alternating, every single-field deviation).         *)
(***************************************************************************)
EXTENDS EduceSyntax, TLC, Json

CONSTANTS M,          \* number of variants of the many-variant enum (0: none)
          Key,        \* which field key carries the treatment: "eq" | "ord" | "hash" | "dbg" | "clone"
          TraitList,  \* the trait list of the type options
          N           \* number of fields

TraitsEq == <<"PartialEq">>
TraitsOrd == <<"PartialEq", "Eq", "PartialOrd", "Ord">>
TraitsPOrd == <<"PartialEq", "PartialOrd">>
TraitsHash == <<"PartialEq", "Hash">>
TraitsDbg == <<"Debug">>
TraitsClone == <<"Clone">>
TraitsDeref == <<"Deref", "DerefMut">>
TraitsInto == <<"Into">>

Positions == {1, 5, 10, N}
TreatOf(key) == IF key = "clone" THEN {Own, Method} ELSE Treatments

FieldWith(key, t) ==
  CASE key = "eq" -> [DefField EXCEPT !.eq = t]
    [] key = "ord" -> [DefField EXCEPT !.ord = t]
    [] key = "hash" -> [DefField EXCEPT !.hash = t, !.eq = IF t = Ignore THEN Ignore ELSE Own]
    [] key = "dbg" -> [DefField EXCEPT !.dbg = t]
    [] OTHER -> [DefField EXCEPT !.clone = t]

\* one special position p with treatment t, a second special position q (ignored / method) -- or none
Fields(p, t, q, u) == [i \in 1..N |-> IF i = p THEN FieldWith(Key, t) ELSE IF i = q THEN FieldWith(Key, u) ELSE DefField]

Opts == [DefOpts EXCEPT !.traits = TraitList, !.eqvia = "PartialEq", !.ordvia = IF "Ord" \in { TraitList[i] : i \in DOMAIN TraitList } THEN "Ord" ELSE "PartialOrd"]

\* Deref / DerefMut markers at independent positions of a 12-field variant
DerefFields(p, q) == [i \in 1..N |-> [DefField EXCEPT !.deref = (i = p), !.dmut = (i = q)]]
DerefConfigs ==
  { [kind |-> k, opts |-> Opts,
     variants |-> IF k = "struct" THEN << [DefVariant EXCEPT !.style = s, !.fields = DerefFields(p, q)] >>
                  ELSE << [DefVariant EXCEPT !.style = "tuple", !.fields = <<DefField>>],
                          [DefVariant EXCEPT !.style = s, !.fields = DerefFields(p, q)] >>] :
      k \in {"struct", "enum"}, s \in {"tuple", "named"}, p \in {1, 10, 11, N}, q \in {1, 10, 11, N} }

\* Into markers for two targets at independent positions of a 12-field variant
IntoFields(p, q, m) ==
  [i \in 1..N |-> [DefField EXCEPT !.into = (IF i = p /\ i = q THEN <<[t |-> "A", m |-> m], [t |-> "B", m |-> FALSE]>>
                                              ELSE IF i = p THEN <<[t |-> "A", m |-> m]>>
                                              ELSE IF i = q THEN <<[t |-> "B", m |-> FALSE]>> ELSE <<>>)]]
IntoConfigs ==
  { [kind |-> k, opts |-> [Opts EXCEPT !.targets = <<"A", "B">>],
     variants |-> IF k = "struct" THEN << [DefVariant EXCEPT !.style = s, !.fields = IntoFields(p, q, m)] >>
                  ELSE << [DefVariant EXCEPT !.style = "tuple", !.fields = <<DefField>>],
                          [DefVariant EXCEPT !.style = s, !.fields = IntoFields(p, q, m)] >>] :
      k \in {"struct", "enum"}, s \in {"tuple", "named"}, p \in {1, 10, N}, q \in {1, 11, N}, m \in BOOLEAN }

WideConfigs ==
  IF Key = "deref" THEN DerefConfigs ELSE IF Key = "into" THEN IntoConfigs ELSE
  { [kind |-> k, opts |-> Opts,
     variants |-> IF k = "struct" THEN << [DefVariant EXCEPT !.style = s, !.fields = Fields(p, t, q, u)] >>
                  ELSE << [DefVariant EXCEPT !.style = "unit"], [DefVariant EXCEPT !.style = s, !.fields = Fields(p, t, q, u)] >>] :
      k \in {"struct", "enum"}, s \in {"tuple", "named"}, p \in Positions, t \in TreatOf(Key), q \in {0, 11}, u \in TreatOf(Key) \ {Own} }

\* an enum with M unit variants and one data variant at the end (a variant tag narrower than the variant count, a
\* discriminant type inferred too small, a name table indexed with one byte ... only show beyond 256 variants)
ManyVariants ==
  IF M = 0 THEN {}
  ELSE { [kind |-> "enum", opts |-> Opts,
          variants |-> [i \in 1..(M + 1) |-> IF i <= M THEN [DefVariant EXCEPT !.style = "unit"]
                                                ELSE [DefVariant EXCEPT !.style = "tuple", !.fields = <<FieldWith(Key, Own)>>]]] }

VARIABLE done
Init == done = FALSE
Emit == ~done /\ done' = TRUE /\ \A c \in WideConfigs \cup ManyVariants : PrintT(<<"CORPUS", ToJson(c)>>)
Next == Emit
Spec == Init /\ [][Next]_done
TypeOK == done \in BOOLEAN
=============================================================================
