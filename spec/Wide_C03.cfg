SPECIFICATION Spec
CONSTANTS
  Key = "ord"
  TraitList <- TraitsOrd
  N = 12
  M = 258
  Vals = {0, 1}
INVARIANTS TypeOK
CHECK_DEADLOCK FALSE
