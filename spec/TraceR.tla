------------------------------- MODULE TraceR -------------------------------
(***************************************************************************)
(* Trace validation, channel R: every record of TRACE is one public call   *)
(* made on a real value of a real `#[derive(Educe)]` type rendered from    *)
(* configuration Types[e.t]; the record carries the operands, the calls    *)
(* the generated code made into the probe fields, and the result.  One     *)
(* step consumes one record and judges it with the Prop* predicate of its  *)
(* operation (EduceRun).  Records the specification cannot explain are     *)
(* collected in `bad` (at most MaxBad) so that the rest of the trace is    *)
(* still examined; the trace is accepted iff every record was consumed and *)
(* `bad` is empty.                                                         *)
(***************************************************************************)
EXTENDS EduceRun, Json, IOUtils

Types == ndJsonDeserialize(IOEnv.TYPES)
Rec   == ndJsonDeserialize(IOEnv.TRACE)
MaxBad == 20

VARIABLES l, bad, learned
tvars == <<l, bad, learned>>

Accept(e, c) ==
  CASE e.op = "eq" -> /\ PropEq(c, e.a, e.b, e.calls, e.ret)
                      /\ PropNe(c, e.a, e.b, e.ncalls, e.nret)
    [] e.op \in {"cmp", "partial_cmp"} -> PropCmp(c, e.op, e.a, e.b, e.calls, e.ret)
    [] e.op = "disctype" -> e.ty = DiscTypeOf(c)      \* read off the in-process expansion of the same item
    [] e.op = "eq_same" -> PropEqSame(c, e.a, e.calls, e.ret) /\ PropNeSame(c, e.a, e.ncalls, e.nret)
    [] e.op = "partial_cmp_same" -> PropCmpSame(c, "partial_cmp", e.a, e.calls, e.ret)
    [] e.op = "hashes" -> PropHashAll(c, e.obs, e.eqs)
    [] e.op = "cmp_layout" ->
         /\ PropCmpResults(c, "partial_cmp", e.a, e.b, e.prets)
         /\ HasTrait(c, "Ord") => PropCmpResults(c, "cmp", e.a, e.b, e.crets)
    [] e.op = "clone" -> PropClone(c, e.a, e.calls, e.res)
    [] e.op = "clone_from" -> PropCloneFrom(c, e.a, e.b, e.res)
    [] e.op = "fmt" -> PropDebug(c, e)
    [] e.op = "default" -> PropDefault(c, e)
    [] e.op = "deref" -> PropDeref(c, e)
    [] e.op = "into" -> PropInto(c, e)
    [] e.op = "union" -> PropUnion(c, e)
    [] OTHER -> FALSE

TraceInit == l = 1 /\ bad = <<>> /\ learned = <<>>

Consume ==
  /\ l <= Len(Rec)
  /\ LET e == Rec[l] IN
       /\ bad' = IF Accept(e, Types[e.t]) \/ Len(bad) >= MaxBad THEN bad ELSE Append(bad, l)
       /\ UNCHANGED learned
  /\ l' = l + 1

Finish ==
  /\ l = Len(Rec) + 1
  /\ l' = l + 1
  /\ UNCHANGED <<bad, learned>>
  /\ PrintT(<<"RESULT", ToJson([n |-> Len(Rec), bad |-> bad, learned |-> learned])>>)

TraceNext == Consume \/ Finish
TraceSpec == TraceInit /\ [][TraceNext]_tvars

\* POSTCONDITION: all records consumed (one state per record, plus the initial
\* and the final state)
TraceConsumed == TLCGet("stats").diameter = Len(Rec) + 2
=============================================================================
