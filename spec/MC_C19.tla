------------------------------- MODULE MC_C19 -------------------------------
(***************************************************************************)
(* C19: generated code is insulated from the names at the derive site.     *)
(* The specification contains no model of Rust name resolution (DESIGN.md  *)
(* section 10); what it contributes is the quantifier and the expectation: *)
(* for every identifier the generated code uses internally (the pool is    *)
(* recorded from real expansions at check time and loaded from             *)
(* IOEnv.FACTS) x every namespace position a user identifier can take x    *)
(* shape x trait set, the request is acceptable and the expansion must     *)
(* compile cleanly -- inside a module that also shadows the prelude names  *)
(* the templates mention, and in a #![no_std] crate.                       *)
(***************************************************************************)
EXTENDS Naturals, Sequences, FiniteSets, TLC, Json, IOUtils

Facts == JsonDeserialize(IOEnv.FACTS)
Pool == { Facts.pool[i] : i \in DOMAIN Facts.pool }

Positions == {"field", "variant", "typeparam", "constparam", "lifetime", "typename", "method"}
Kinds == {"struct", "enum"}
TraitSets == {"cmp8", "copyderefinto"}

\* which identifiers can stand at which position (lexical class only)
IsLower(id) == id \in { Facts.lower[i] : i \in DOMAIN Facts.lower }
Fits(pos, id) ==
  CASE pos \in {"field", "lifetime", "method"} -> IsLower(id)
    [] OTHER -> TRUE

VARIABLES item, phase
vars == <<item, phase>>
Init == item = [pos |-> "-"] /\ phase = "choose"
Choose ==
  /\ phase = "choose"
  /\ \E pos \in Positions : \E id \in Pool : \E k \in Kinds : \E ts \in TraitSets :
       /\ Fits(pos, id)
       /\ (pos = "variant" => k = "enum")
       /\ item' = [pos |-> pos, id |-> id, kind |-> k, traits |-> ts]
  /\ phase' = "emit"
Emit ==
  /\ phase = "emit"
  /\ phase' = "done"
  /\ UNCHANGED item
  /\ PrintT(<<"HOSTILE", ToJson(item)>>)
Next == Choose \/ Emit
Spec == Init /\ [][Next]_vars
\* every pool identifier is tried at least at one position (checked by the harness on the emitted set)
TypeOK == phase \in {"choose", "emit", "done"}
=============================================================================
