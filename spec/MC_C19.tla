------------------------------- MODULE MC_C19 -------------------------------
(***************************************************************************)
(* C19: generated code is insulated from the names at the derive site.     *)
(* The specification contains no model of Rust name resolution (DESIGN.md  *)
(* section 10); what it contributes is the quantifier and the expectation: *)
(* for every identifier the generated code uses internally (the pool is    *)
(* recorded from real expansions at check time and loaded from             *)
(* IOEnv.FACTS) x every namespace position a user identifier can take x    *)
(* shape x trait set, the request is acceptable and the expansion must     *)
(* compile cleanly -- inside a module that also shadows the prelude names  *)
(* the templates mention, and in a #![no_std] crate.                       *)
(***************************************************************************)
EXTENDS Naturals, Sequences, FiniteSets, TLC, Json, IOUtils

Facts == JsonDeserialize(IOEnv.FACTS)
Pool == { Facts.pool[i] : i \in DOMAIN Facts.pool }

\* "fieldtype": a user type of that name, used as the type of a field (the generated code writes field types into
\* where-clauses and, possibly, into method bodies where its own generics are in scope)
Positions == {"field", "variant", "typeparam", "constparam", "lifetime", "typename", "method", "fieldtype"}

\* Names the templates *derive* from the user's own field names (recorded from real expansions as prefix/suffix pairs,
\* e.g. _s_<field>, _o_<field>): a user may call another field exactly that.
Templates == { Facts.templates[i] : i \in DOMAIN Facts.templates }
Derive(t, u) == t.pre \o u \o t.suf
Sibling == "xb"                                       \* the other field of every rendered shape
Derived1 == { Derive(t, Sibling) : t \in Templates }
Derived2 == { Derive(t, d) : t \in Templates, d \in Derived1 }
DerivedNames == (Derived1 \cup Derived2) \ {Sibling}
\* templates that occur together in the expansion of one trait share a scope (recorded per trait)
Scopes == { { Facts.scopes[i][j] : j \in DOMAIN Facts.scopes[i] } : i \in DOMAIN Facts.scopes }
Universe == {Sibling, "xa"} \cup Derived1 \cup Derived2
\* design-level expectation: within one scope, (template, field) |-> binding name is injective over every choice of
\* field names, so no binding captures another.  Pairs that break it are CAPTURE candidates (confirmed on the real
\* code by the harness: compile and run).
Captures ==
  { <<sc, f1, f2>> \in Scopes \X Universe \X Universe :
      f1 # f2 /\ \E t1, t2 \in sc : Derive(t1, f1) = Derive(t2, f2) }
Kinds == {"struct", "enum"}
\* "intoabs": Into targets written as absolute paths (::core::primitive::u16), inside a module that has local modules
\* called core / std / alloc
TraitSets == {"cmp8", "copyderefinto", "intoabs"}

\* which identifiers can stand at which position (lexical class only)
IsLower(id) == id \in { Facts.lower[i] : i \in DOMAIN Facts.lower }
Fits(pos, id) ==
  CASE pos \in {"field", "lifetime", "method"} -> IsLower(id)
    [] OTHER -> TRUE

VARIABLES item, phase
vars == <<item, phase>>
Init == item = [pos |-> "-"] /\ phase = "choose"
\* Names the generated code falls back to when the user already took its first choice (recorded from real expansions:
\* a type with a parameter called like a generated generic gets e.g. `H_` instead of `H`).  The user may hold *both*
\* names, in either declaration order, as type or const parameters.
Avoid == { Facts.avoid[i] : i \in DOMAIN Facts.avoid }        \* pairs <<taken, fallback>>
ChoosePair ==
  /\ phase = "choose"
  /\ \E p \in Avoid : \E ord \in {"taken_first", "fallback_first"} : \E sorts \in {"tt", "tc", "ct"} : \E k \in Kinds :
       item' = [pos |-> "parampair", id |-> p[1], id2 |-> p[2], order |-> ord, sorts |-> sorts, kind |-> k, traits |-> "cmp8"]
  /\ phase' = "emit"
ChooseDerived ==
  /\ phase = "choose"
  /\ \E id \in DerivedNames : \E k \in Kinds : \E ts \in TraitSets :
       item' = [pos |-> "derived", id |-> id, kind |-> k, traits |-> ts]
  /\ phase' = "emit"
Choose ==
  /\ phase = "choose"
  /\ \E pos \in Positions : \E id \in Pool : \E k \in Kinds : \E ts \in TraitSets :
       /\ Fits(pos, id)
       /\ (pos = "variant" => k = "enum")
       /\ item' = [pos |-> pos, id |-> id, kind |-> k, traits |-> ts]
  /\ phase' = "emit"
Emit ==
  /\ phase = "emit"
  /\ phase' = "done"
  /\ UNCHANGED item
  /\ PrintT(<<"HOSTILE", ToJson(item)>>)
Next == Choose \/ ChooseDerived \/ ChoosePair \/ Emit
Spec == Init /\ [][Next]_vars
\* every pool identifier is tried at least at one position (checked by the harness on the emitted set)
TypeOK == phase \in {"choose", "emit", "done"}
ASSUME PrintT(<<"CAPTURES", ToJson([n |-> Cardinality(Captures), pairs |-> { <<c[2], c[3]>> : c \in Captures }])>>)
=============================================================================
