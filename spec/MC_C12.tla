------------------------------- MODULE MC_C12 -------------------------------
(***************************************************************************)
(* C12: explicit bound modes and the type's own generics are honoured      *)
(* verbatim.  Configurations: generics descriptor x trait set x bound mode *)
(* of the primary trait x field type classes / delegation attributes.  The *)
(* expected impl header and where-set of every emitted impl are            *)
(* ImplParams(c) and WhereSet(c, t) of EduceBounds.                        *)
(***************************************************************************)
EXTENDS EduceBounds, EduceBuild

CONSTANTS TraitSetsC12, Modes

vars == <<cfg, phase>>

Sets ==
  { <<"Debug">>, <<"Clone">>, <<"Clone", "Copy">>, <<"Copy">>, <<"PartialEq">>, <<"PartialEq", "Eq">>, <<"Eq">>,
    <<"PartialEq", "PartialOrd">>, <<"PartialEq", "Eq", "PartialOrd", "Ord">>, <<"PartialEq", "Eq", "Ord">>,
    <<"Hash">>, <<"Default">>, <<"Into">>,
    \* several handlers at once, in an attribute order that differs from the handler order (emission order)
    <<"Hash", "Ord", "PartialOrd", "Eq", "PartialEq", "Copy", "Clone", "Debug">> }

\* the trait of a set whose bound mode is varied: the one whose handler writes the where-clause last in the
\* set (companions cannot carry a bound of their own)
ModedTrait(ts) ==
  CASE ts = <<"Clone", "Copy">> -> "Clone" [] ts = <<"PartialEq", "Eq">> -> "PartialEq"
    [] ts = <<"PartialEq", "PartialOrd">> -> "PartialOrd" [] ts = <<"PartialEq", "Eq", "PartialOrd", "Ord">> -> "Ord"
    [] ts = <<"PartialEq", "Eq", "Ord">> -> "Ord" [] OTHER -> ts[1]

MCTypeOptSet(k) ==
  { o \in { [DefOpts EXCEPT !.traits = ts, !.gen = g, !.bounds = (ModedTrait(ts) :> m) @@ ("-" :> "auto"), !.newfn = nf, !.dexpr = dx] :
              ts \in TraitSetsC12 \ {<<"Into">>}, g \in GenDescs, m \in Modes, nf \in BOOLEAN, dx \in BOOLEAN } :
      \* (a type-level Default expression: no field is defaulted, but the bound mode still rules the header)
      /\ o.newfn => o.traits = <<"Default">>
      /\ o.dexpr => o.traits = <<"Default">>
      /\ o.gen = "lc" => \A k2 \in DOMAIN o.bounds : o.bounds[k2] # "custom" }     \* (the custom predicate is about T)
  \cup
  \* Into: one or two targets, each with a bound mode of its own
  { o \in { [DefOpts EXCEPT !.traits = <<"Into">>, !.gen = g, !.targets = <<"A">>, !.bounds = ("Into:A" :> m) @@ ("-" :> "auto")] :
               g \in GenDescs, m \in Modes } : o.gen = "lc" => o.bounds["Into:A"] # "custom" }
  \cup
  { [DefOpts EXCEPT !.traits = <<"Into">>, !.gen = g, !.targets = <<"A", "B">>,
                    !.bounds = ("Into:A" :> m) @@ ("Into:B" :> m2) @@ ("-" :> "auto")] :
      g \in GenDescs \ {"lc"}, m \in Modes, m2 \in {"auto", "custom", "disabled"} }
MCVarOptSet(c) ==
  { [DefVariant EXCEPT !.style = s, !.dflt = m] :
      s \in {"named", "tuple"}, m \in (IF c.kind = "enum" /\ HasTrait(c, "Default") THEN BOOLEAN ELSE {FALSE}) }

Classes(c) ==
  CASE c.opts.gen = "TU" -> {"T", "U", "WrapT", "PairTU", "conc", "ArrT"}
    [] c.opts.gen = "rich" -> {"T", "WrapT", "PhantomT", "conc"}
    [] c.opts.gen = "lc" -> {"ArrN", "conc"}                 \* (a field type that mentions the const parameter)
    [] OTHER -> {"RefT", "U", "PhantomT", "conc"}            \* (T is unsized: only behind a reference)
Choices(c) ==
  LET has(t) == HasTrait(c, t) IN
  { [DefField EXCEPT !.ty = ty, !.dbg = d, !.clone = cl, !.eq = e, !.ord = o, !.hash = h, !.into = m] :
      ty \in Classes(c) \cup (IF has("Into") THEN {"A"} ELSE {}),
      d \in (IF has("Debug") THEN {Own, Ignore} ELSE {Own}),
      cl \in (IF has("Clone") /\ ~(c.kind = "struct" /\ has("Copy")) THEN {Own, Method} ELSE {Own}),
      e \in (IF has("PartialEq") /\ Len(c.opts.traits) <= 2 THEN {Own, Method} ELSE {Own}),
      o \in (IF has("PartialOrd") \/ has("Ord") THEN {Own, Ignore} ELSE {Own}),
      h \in (IF has("Hash") THEN {Own, Method} ELSE {Own}),
      m \in (IF ~has("Into") THEN { <<>> }
             ELSE IF Len(c.opts.targets) = 1 THEN { <<[t |-> "A", m |-> FALSE]>>, <<[t |-> "A", m |-> TRUE]>> }
             ELSE { <<[t |-> "A", m |-> FALSE], [t |-> "B", m |-> FALSE]>>, <<[t |-> "A", m |-> TRUE], [t |-> "B", m |-> FALSE]>>,
                    <<[t |-> "B", m |-> TRUE], [t |-> "A", m |-> FALSE]>>,
                    \* this field serves A only; the next one serves B
                    <<[t |-> "A", m |-> FALSE]>> }) }
BFields(c) == { [DefField EXCEPT !.ty = ty, !.into = <<[t |-> "B", m |-> FALSE]>>] : ty \in (IF c.opts.gen = "rich" THEN {"WrapT"} ELSE {"U"}) }
TwoTargets(c) == HasTrait(c, "Into") /\ Len(c.opts.targets) = 2
ServesB(f) == \E k \in DOMAIN f.into : f.into[k].t = "B"

PhantomField == [DefField EXCEPT !.ty = "PhantomAll"]
PlainFields(c) ==
  { [DefField EXCEPT !.ty = (IF c.opts.gen = "wide" THEN "U" ELSE IF c.opts.gen = "lc" THEN "ArrN" ELSE "T"), !.into = IF HasTrait(c, "Into") /\ Len(c.opts.targets) = 2 THEN <<[t |-> "B", m |-> TRUE]>> ELSE <<>>] }
MCFieldSet(c) ==
  IF NVariants(c) = 0 THEN {}
  ELSE LET lv == Last(c.variants)
           n == Len(lv.fields) IN
    IF n > 0 /\ Last(lv.fields).ty = "PhantomAll" THEN {}
    ELSE IF NVariants(c) = 2 THEN (IF n = 0 /\ lv.style = "tuple" /\ ~lv.dflt THEN PlainFields(c) ELSE {})
    ELSE IF n = 0 THEN Choices(c)
    ELSE IF n = 1 /\ TwoTargets(c) /\ ~ServesB(lv.fields[1]) THEN BFields(c)
    ELSE {PhantomField}

MCAdmissible(c) ==
  /\ NVariants(c) >= 1
  /\ NFields(c, 1) \in {2, 3} /\ Last(c.variants[1].fields).ty = "PhantomAll"
  /\ \A v \in 2..NVariants(c) : NFields(c, v) >= 1
  /\ HasTrait(c, "Default") => DefaultWellDesignated(c)
  /\ HasTrait(c, "Into") => /\ IntoDesignated(c)
                             \* a conversion is asked of a bare type parameter (or is the identity): anything else
                             \* (u8: Into<TA>) would be the user's own ill-typed input
                             /\ \A v \in 1..NVariants(c) : \A k \in DOMAIN c.opts.targets :
                                   LET t == c.opts.targets[k] IN
                                     IntoMode(c, v, t) = "convert" => c.variants[v].fields[IntoField(c, v, t)].ty \in {"T", "U", "ArrN"}

Init == BuildInit
Emit == phase = "sealed" /\ phase' = "emitted" /\ UNCHANGED cfg
DoStart      == \E k \in KindSet : \E o \in TypeOptSet(k) : Start(k, o)
DoAddVariant == \E vo \in VarOptSet(cfg) : AddVariant(vo)
DoAddField   == \E f \in FieldSet(cfg) : AddField(f)
Next == DoStart \/ DoAddVariant \/ DoAddField \/ Seal \/ Emit
Spec == Init /\ [][Next]_vars

\* bound(*) constrains type parameters only, each exactly once; bound = false adds nothing beyond the
\* user's own predicates; a custom bound adds exactly the given predicate
ModesHonoured ==
  phase = "sealed" =>
    \A t \in EmittedTraits(cfg) :
      LET m == ModeOf(cfg, Primary(cfg, t))
          w == WhereSet(cfg, t) \ UserWhereOf(cfg.opts.gen)
      IN /\ m = "disabled" => w = {}
         /\ m = "custom" => w = {CustomPred}
         /\ m = "all" => Cardinality(w) = Len(TypeParamsOf(cfg.opts.gen))
\* companions share the primary's where-set
CompanionsShare ==
  phase = "sealed" =>
    /\ (HasTrait(cfg, "PartialEq") /\ HasTrait(cfg, "Eq")) => WhereSet(cfg, "Eq") = WhereSet(cfg, "PartialEq")
    /\ (HasTrait(cfg, "Clone") /\ HasTrait(cfg, "Copy")) => WhereSet(cfg, "Copy") = WhereSet(cfg, "Clone")
    /\ (HasTrait(cfg, "Ord") /\ HasTrait(cfg, "PartialOrd")) => WhereSet(cfg, "PartialOrd") = WhereSet(cfg, "Ord")
=============================================================================
