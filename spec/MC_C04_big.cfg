SPECIFICATION Spec
CONSTANTS
  KindSet <- MCKindSet
  TypeOptSet <- MCTypeOptSet
  VarOptSet <- MCVarOptSet
  FieldSet <- MCFieldSet
  Admissible <- MCAdmissible
  MaxVariants = 3
  MaxPayloadVariants = 1
  MaxFields = 1
  DiscSet <- DiscsBig
  PayloadSet = {"P", "bool", "opt", "unit", "nz"}
  TraitSetsC04 <- TraitSetsOrdCopy
  ReprSet = {"u64", "none"}
  Vals = {0, 1}
CONSTRAINT CorpusOnly
CHECK_DEADLOCK FALSE
