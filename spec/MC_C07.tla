------------------------------- MODULE MC_C07 -------------------------------
(***************************************************************************)
(* C07: Clone and clone_from reproduce the source value field by field;    *)
(* with Copy (and no custom method) clone is a bitwise copy.               *)
(***************************************************************************)
EXTENDS EduceRun, EduceBuild

VARIABLE run
vars == <<cfg, phase, run>>
NoRun == [op |-> "none"]

MCKindSet == {"struct", "enum"}
MCTypeOptSet(k) ==
  { [DefOpts EXCEPT !.traits = t] : t \in { <<"Clone">>, <<"Clone", "Copy">>, <<"Copy", "Clone">> } }
MCVarOptSet(c) == { [DefVariant EXCEPT !.style = s] : s \in Styles }
CONSTANT Narrow   \* TRUE: at most one variant wider than two fields (quick instance); FALSE: no such restriction
MCFieldSet(c) ==
  IF NVariants(c) > 0 /\ Narrow /\ ~MayWiden(c) THEN {}
  \* the field as a probe or as a shared reference to one (at most one reference field per configuration)
  ELSE { [DefField EXCEPT !.clone = t, !.ty = y] : t \in {Own, Method},
           y \in (IF \E v \in 1..NVariants(c) : \E i \in FieldIdx(c, v) : c.variants[v].fields[i].ty = "ref" THEN {"P"} ELSE {"P", "ref"}) }
\* a struct that educes Copy refuses Clone(method) on its fields (deliberate, S2)
MCAdmissible(c) == (Narrow => WideOK(c)) /\ ~(c.kind = "struct" /\ HasTrait(c, "Copy") /\ HasCloneMethod(c))

Init == BuildInit /\ run = NoRun

Begin(op, a, b) ==
  /\ run = NoRun
  /\ run' = [op |-> op, a |-> a, b |-> b, pc |-> 1, calls |-> <<>>, res |-> <<>>, resv |-> 0, done |-> FALSE]
  /\ UNCHANGED <<cfg, phase>>

DoStart      == (\E k \in KindSet : \E o \in TypeOptSet(k) : Start(k, o)) /\ UNCHANGED run
DoAddVariant == (\E vo \in VarOptSet(cfg) : AddVariant(vo)) /\ UNCHANGED run
DoAddField   == (\E f \in FieldSet(cfg) : AddField(f)) /\ UNCHANGED run
DoSeal       == Seal /\ UNCHANGED run
\* attribute order (Clone, Copy / Copy, Clone) does not reach the machine
RunHere(c) == c.opts.traits # <<"Copy", "Clone">>
DoBegin ==
  /\ phase = "sealed" /\ RunHere(cfg)
  /\ \E a \in Values(cfg) :
       \/ Begin("clone", a, a)
       \/ \E b \in Values(cfg) : Begin("clone_from", a, b)
Step ==
  /\ run # NoRun /\ ~run.done
  /\ run' = IF run.op = "clone" THEN ImplCloneStep(cfg, run) ELSE ImplCloneFromStep(cfg, run)
  /\ UNCHANGED <<cfg, phase>>
Return ==
  /\ run # NoRun /\ run.done
  /\ run' = NoRun
  /\ UNCHANGED <<cfg, phase>>

Next == DoStart \/ DoAddVariant \/ DoAddField \/ DoSeal \/ DoBegin \/ Step \/ Return
Spec == Init /\ [][Next]_vars

Finished == run # NoRun /\ run.done
Res == <<run.resv, run.res>>

ImplMeetsProp ==
  Finished => IF run.op = "clone" THEN PropClone(cfg, run.a, run.calls, Res)
                                  ELSE PropCloneFrom(cfg, run.a, run.b, Res)

\* clone_from ends in the same abstract value as clone of the source
CloneFromIsClone ==
  (Finished /\ run.op = "clone_from") =>
     /\ run.resv = run.b.v
     /\ \A i \in FieldIdx(cfg, run.b.v) : run.res[i][3] = run.b.f[i]
\* corpus-only exploration (used where only the configurations are wanted, not the run machine): states in which a
\* run has begun are not expanded
CorpusOnly == run = NoRun
=============================================================================
