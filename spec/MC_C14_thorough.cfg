SPECIFICATION Spec
CONSTANTS
  KindSet = {"struct", "enum"}
  TypeOptSet <- MultiTypeOptSet
  VarOptSet <- MultiVarOptSet
  FieldSet <- MultiFieldSet
  Admissible <- MultiAdmissible
  MaxVariants = 2
  MaxFields = 2
  MaxDeviations = 2
  EnumDeviations = 2
  TraitSets <- TraitSetsThorough
  MultiRanks <- NegRank
  Vals = {0, 1}
INVARIANTS SitesWellFormed
CHECK_DEADLOCK FALSE
