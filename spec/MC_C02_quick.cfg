SPECIFICATION Spec
CONSTANTS
  KindSet <- MCKindSet
  TypeOptSet <- MCTypeOptSet
  VarOptSet <- MCVarOptSet
  FieldSet <- MCFieldSet
  Admissible <- MCAdmissible
  MaxVariants = 2
  MaxFields = 3
  MaxLawFields = 2
  Narrow = TRUE
  Vals = {0, 1}
INVARIANTS ImplMeetsDecl ImplMeetsProp IgnoredIrrelevant Laws
CHECK_DEADLOCK FALSE
