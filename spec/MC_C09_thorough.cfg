SPECIFICATION Spec
CONSTANTS
  KindSet <- MCKindSet
  TypeOptSet <- MCTypeOptSet
  VarOptSet <- MCVarOptSet
  FieldSet <- MCFieldSet
  Admissible <- MCAdmissible
  MaxVariants = 2
  MaxFields = 4
  Vals = {0, 1}
INVARIANTS ScanFindsDesignated
CHECK_DEADLOCK FALSE
