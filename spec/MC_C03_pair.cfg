SPECIFICATION Spec
CONSTANTS
  KindSet = {"enum"}
  TypeOptSet <- MCTypeOptSet
  VarOptSet <- MCVarOptSet
  FieldSet <- MCFieldSet
  Admissible <- MCAdmissible
  MaxVariants = 2
  MaxFields = 3
  RichFields = 2
  EnumRichFields = 2
  RankSet <- RanksQuick
  EnumRankSet = {2}
  SimpleStyles = {"unit", "tuple"}
  MaxLawValues = 8
  PairMode = TRUE
  Vals = {0, 1}
CONSTRAINT CorpusOnly
CHECK_DEADLOCK FALSE
