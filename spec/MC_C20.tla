------------------------------- MODULE MC_C20 -------------------------------
(***************************************************************************)
(* C20: union impls are byte-wise.  Values are byte patterns; the model    *)
(* of each impl is a function of the bytes (RenderUnion, equality of byte  *)
(* sequences, the slice's own hash feed).  The `unsafe` gating is decided  *)
(* at expansion level (EduceScan / C13 corpus, and the X part of this      *)
(* check).                                                                 *)
(***************************************************************************)
EXTENDS EduceRun, EduceBuild

CONSTANTS UnionTypes

VARIABLE run
vars == <<cfg, phase, run>>
NoRun == [op |-> "none"]

MCKindSet == {"union"}
MCTypeOptSet(k) ==
  \* repr "C": typed members only (the bytes beyond the largest member are padding, yet they belong to the value:
  \* size_of::<Self>() bytes are shown, compared and hashed); "none": with a full-size byte-array member
  { [DefOpts EXCEPT !.traits = <<"Debug", "PartialEq", "Eq", "Hash", "Clone", "Copy">>, !.dname = n, !.repr = r] :
       n \in {"default", "off", "custom"}, r \in {"none", "C"} }
MCVarOptSet(c) == { [DefVariant EXCEPT !.style = "named"] }
MCFieldSet(c) == { [DefField EXCEPT !.ty = t] : t \in UnionTypes }
MCAdmissible(c) == TRUE

Init == BuildInit /\ run = NoRun

ByteDom == {0, 7, 255}
Patterns(n) ==
  IF n <= 2 THEN [1..n -> ByteDom]
  ELSE { [i \in 1..n |-> 0], [i \in 1..n |-> 255], [i \in 1..n |-> i],
         [i \in 1..n |-> IF i = n THEN 7 ELSE 0], [i \in 1..n |-> IF i = 1 THEN 7 ELSE 0] }

\* the byte-view machine: read size bytes, then act
Begin(bytes, op) ==
  /\ run = NoRun
  /\ run' = [op |-> op, bytes |-> bytes, pc |-> 1, view |-> <<>>, done |-> FALSE]
  /\ UNCHANGED <<cfg, phase>>

DoStart      == (\E k \in KindSet : \E o \in TypeOptSet(k) : Start(k, o)) /\ UNCHANGED run
DoAddVariant == (\E vo \in VarOptSet(cfg) : AddVariant(vo)) /\ UNCHANGED run
DoAddField   == (\E f \in FieldSet(cfg) : AddField(f)) /\ UNCHANGED run
DoSeal       == Seal /\ UNCHANGED run
DoBegin      == phase = "sealed" /\ \E b \in Patterns(USize(cfg)) : \E op \in {"fmt", "eq", "hash"} : Begin(b, op)
Step ==
  /\ run # NoRun /\ ~run.done
  /\ run' = IF run.pc > USize(cfg) THEN [run EXCEPT !.done = TRUE]
            ELSE [run EXCEPT !.pc = @ + 1, !.view = Append(@, run.bytes[run.pc])]
  /\ UNCHANGED <<cfg, phase>>
Return ==
  /\ run # NoRun /\ run.done
  /\ run' = NoRun
  /\ UNCHANGED <<cfg, phase>>

Next == DoStart \/ DoAddVariant \/ DoAddField \/ DoSeal \/ DoBegin \/ Step \/ Return
Spec == Init /\ [][Next]_vars

Finished == run # NoRun /\ run.done
\* the view is exactly the size_of::<Self>() bytes of the value
ViewIsAllBytes == Finished => run.view = run.bytes /\ Len(run.view) = USize(cfg)
\* the Debug text determines the bytes and vice versa
TextInjective ==
  (phase = "sealed" /\ run = NoRun) =>
    \A x \in Patterns(USize(cfg)) : \A y \in Patterns(USize(cfg)) : \A alt \in BOOLEAN :
      (RenderUnion(cfg, x, "U", alt) = RenderUnion(cfg, y, "U", alt)) <=> (x = y)
\* corpus-only exploration (used where only the configurations are wanted, not the run machine): states in which a
\* run has begun are not expanded
CorpusOnly == run = NoRun
=============================================================================
