SPECIFICATION Spec
CONSTANTS
  Key = "eq"
  TraitList <- TraitsEq
  N = 12
  M = 258
  Vals = {0, 1}
INVARIANTS TypeOK
CHECK_DEADLOCK FALSE
