------------------------------- MODULE MC_C09 -------------------------------
(***************************************************************************)
(* C09: Deref and DerefMut expose exactly the designated field.            *)
(* The designation machine scans the fields of each variant for the marker *)
(* (single-field shortcut), one step per field.                            *)
(***************************************************************************)
EXTENDS EduceRun, EduceBuild

VARIABLE run
vars == <<cfg, phase, run>>
NoRun == [op |-> "none"]

MCKindSet == {"struct", "enum"}
MCTypeOptSet(k) == { [DefOpts EXCEPT !.traits = t] : t \in { <<"Deref">>, <<"Deref", "DerefMut">> } }
MCVarOptSet(c) == { [DefVariant EXCEPT !.style = s] : s \in {"named", "tuple"} }
\* shared references only without DerefMut (a `&P` cannot be borrowed mutably); exclusive references (`&'static mut P`)
\* with and without it
MCFieldSet(c) ==
  { [DefField EXCEPT !.deref = d, !.dmut = m, !.ty = t] :
      d \in BOOLEAN,
      m \in (IF HasTrait(c, "DerefMut") THEN BOOLEAN ELSE {FALSE}),
      t \in (IF \E v \in 1..NVariants(c) : \E i \in FieldIdx(c, v) : c.variants[v].fields[i].ty # "P" THEN {"P"}   \* one reference field at most
             \* ("refref": a reference to a reference -- the target is still the innermost referent)
             ELSE IF HasTrait(c, "DerefMut") THEN {"P", "refmut"} ELSE {"P", "ref", "refmut", "refref"}) }
\* bounded instance: in a two-variant enum one variant is the plain `V(P)`
PlainVar(var) ==
  /\ var.style = "tuple" /\ Len(var.fields) = 1
  /\ var.fields[1].ty = "P" /\ ~var.fields[1].deref /\ ~var.fields[1].dmut
MCBoundOK(c) ==
  /\ NVariants(c) >= 1
  /\ \A v \in 1..NVariants(c) : NFields(c, v) >= 1
  \* two-variant enums: one variant is the plain `V(P)`, or both have two fields (what one arm binds must not leak
  \* into -- or be shared with -- the other)
  /\ NVariants(c) > 1 => (\E v \in 1..NVariants(c) : PlainVar(c.variants[v]))
                          \/ (\A v \in 1..NVariants(c) : NFields(c, v) = 2 /\ \A i \in FieldIdx(c, v) : c.variants[v].fields[i].ty = "P")
  /\ ~HasTrait(c, "DerefMut") => \A v \in 1..NVariants(c) : DMutMarked(c, v) = {}
\* a missing or duplicated marker among several fields
MCSemOK(c) == DerefWellDesignated(c)
MCAdmissible(c) == MCBoundOK(c) /\ MCSemOK(c)
DoSealBad == SealBad(MCBoundOK, MCSemOK) /\ UNCHANGED run

Init == BuildInit /\ run = NoRun

\* scan machine for one variant and one marker kind
Begin(v, kind) ==
  /\ run = NoRun
  /\ run' = [op |-> kind, v |-> v, pc |-> 1, found |-> 0, done |-> FALSE]
  /\ UNCHANGED <<cfg, phase>>
IsMarked(f, kind) == IF kind = "deref" THEN f.deref ELSE f.dmut

DoStart      == (\E k \in KindSet : \E o \in TypeOptSet(k) : Start(k, o)) /\ UNCHANGED run
DoAddVariant == (\E vo \in VarOptSet(cfg) : AddVariant(vo)) /\ UNCHANGED run
DoAddField   == (\E f \in FieldSet(cfg) : AddField(f)) /\ UNCHANGED run
DoSeal       == Seal /\ UNCHANGED run
DoBegin ==
  /\ phase = "sealed"
  /\ \E v \in 1..NVariants(cfg) :
       \E kind \in (IF HasTrait(cfg, "DerefMut") THEN {"deref", "deref_mut"} ELSE {"deref"}) : Begin(v, kind)
Step ==
  /\ run # NoRun /\ ~run.done
  /\ run' =
       IF NFields(cfg, run.v) = 1 THEN [run EXCEPT !.done = TRUE, !.found = 1]
       ELSE IF run.pc > NFields(cfg, run.v) THEN [run EXCEPT !.done = TRUE]
       ELSE IF IsMarked(cfg.variants[run.v].fields[run.pc], run.op)
            THEN [run EXCEPT !.pc = @ + 1, !.found = run.pc]
            ELSE [run EXCEPT !.pc = @ + 1]
  /\ UNCHANGED <<cfg, phase>>
Return ==
  /\ run # NoRun /\ run.done
  /\ run' = NoRun
  /\ UNCHANGED <<cfg, phase>>

Next == DoStart \/ DoAddVariant \/ DoAddField \/ DoSeal \/ DoSealBad \/ DoBegin \/ Step \/ Return
Spec == Init /\ [][Next]_vars

Finished == run # NoRun /\ run.done
ScanFindsDesignated ==
  Finished => run.found = (IF run.op = "deref" THEN DerefField(cfg, run.v) ELSE DMutField(cfg, run.v))
\* corpus-only exploration (used where only the configurations are wanted, not the run machine): states in which a
\* run has begun are not expanded
CorpusOnly == run = NoRun
=============================================================================
