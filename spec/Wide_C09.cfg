SPECIFICATION Spec
CONSTANTS
  Key = "deref"
  TraitList <- TraitsDeref
  N = 12
  M = 0
  Vals = {0, 1}
INVARIANTS TypeOK
CHECK_DEADLOCK FALSE
