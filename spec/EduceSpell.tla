----------------------------- MODULE EduceSpell -----------------------------
(***************************************************************************)
(* The spelling dimension of #[educe(...)] attributes (C14).               *)
(*                                                                         *)
(* A *request* is what an attribute means (EduceSyntax: treatments, ranks, *)
(* names, ...).  A *spelling class* lists every concrete way to write one  *)
(* kind of request; all members of a class denote the same request, i.e.   *)
(* Normalize(spelling) is the class itself.  The templates are the single  *)
(* source of truth for the renderer (lib/render.py loads this table from   *)
(* TLC's output): $T = attribute (trait) name, $P = parameter name,        *)
(* $V = value tokens, $S = the value inside a string literal.              *)
(*                                                                         *)
(* Classes ending in "_p" spell one parameter inside Trait(...); the       *)
(* others spell a whole meta (and are only used when the request is the    *)
(* meta's only content).                                                   *)
(***************************************************************************)
EXTENDS Sequences, TLC, Json

Spell ==
  [ \* a field is ignored by trait $T
    ignore      |-> << "$T(ignore)", "$T(ignore = true)", "$T(ignore(true))", "$T = false" >>,
    ignore_p    |-> << "ignore", "ignore = true", "ignore(true)" >>,
    \* custom method
    method_p    |-> << "method($V)", "method = $V", "method = \"$S\"", "method(\"$S\")" >>,
    \* explicit rank (negative values included)
    \* ($X: the value as a hexadecimal literal, $U: with a digit separator and a type suffix -- other ways to write the
    \*  same integer literal)
    rank_p      |-> << "rank = $V", "rank($V)", "rank = \"$S\"", "rank(\"$S\")", "rank = $X", "rank($X)", "rank = $U", "rank($U)" >>,
    \* Debug name of a type / variant: custom, off, on
    name_p      |-> << "name = $V", "name($V)", "name = \"$S\"", "name(\"$S\")",
                       "rename = $V", "rename($V)", "rename = \"$S\"", "rename(\"$S\")" >>,
    name        |-> << "Debug(name = $V)", "Debug = $V", "Debug = \"$S\"", "Debug(rename($V))" >>,
    name_off_p  |-> << "name = false", "name(false)", "name = \"\"", "name(\"\")", "rename = false", "rename(false)" >>,
    name_on_p   |-> << "name = true", "name(true)", "rename = true", "rename(true)" >>,
    \* Debug key of a field shown with a key
    key_p       |-> << "name = $V", "name($V)", "name = \"$S\"", "name(\"$S\")",
                       "rename = $V", "rename($V)", "rename = \"$S\"", "rename(\"$S\")" >>,
    key         |-> << "Debug(name = $V)", "Debug = $V", "Debug = \"$S\"", "Debug(rename = \"$S\")" >>,
    \* boolean parameters: named_field, new
    bool_p      |-> << "$P = $V", "$P($V)" >>,
    new_p       |-> << "new", "new = true", "new(true)" >>,
    \* Default: per-field or type-level expression
    expr_p      |-> << "expression = $V", "expression($V)", "expr = $V", "expr($V)" >>,
    expr        |-> << "Default(expression = $V)", "Default = $V", "Default(expr($V))" >>,
    \* bounds
    bound_custom_p   |-> << "bound($V)", "bound = \"$S\"", "bound(\"$S\")" >>,
    bound_disabled_p |-> << "bound = false", "bound(false)", "bound = \"\"" >>,
    bound_auto_p     |-> << "", "bound = true", "bound(true)" >>,
    bound_all_p      |-> << "bound(*)" >>,
    \* several requests on one item: one #[educe(A, B)] list or one attribute each
    split       |-> << "joined", "separate" >>,
    \* order of the traits in the type-level list / of the parameters of a meta
    order       |-> << "forward", "reverse", "rotate" >>
  ]

SpellClasses == DOMAIN Spell
NSpellings(cls) == Len(Spell[cls])

\* printed once by ./check setup (and on demand) for the renderer
ASSUME PrintT(<<"SPELL", ToJson(Spell)>>)
=============================================================================
