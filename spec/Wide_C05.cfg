SPECIFICATION Spec
CONSTANTS
  Key = "hash"
  TraitList <- TraitsHash
  N = 12
  M = 258
  Vals = {0, 1}
INVARIANTS TypeOK
CHECK_DEADLOCK FALSE
