SPECIFICATION Spec
CONSTANTS
  KindSet <- MCKindSet
  TypeOptSet <- MCTypeOptSet
  VarOptSet <- MCVarOptSet
  FieldSet <- MCFieldSet
  Admissible <- MCAdmissible
  MaxVariants = 3
  MaxFields = 2
  StructSources <- AllSources
  EnumSources <- FewSources
  Vals = {0, 1}
CONSTRAINT CorpusOnly
CHECK_DEADLOCK FALSE
