SPECIFICATION Spec
CONSTANTS
  KindSet = {"struct", "enum"}
  TypeOptSet <- MultiTypeOptSet
  VarOptSet <- MultiVarOptSet
  FieldSet <- MultiFieldSet
  Admissible <- MultiAdmissible
  MaxVariants = 2
  MaxFields = 1
  MaxDeviations = 1
  EnumDeviations = 1
  TraitSets <- TraitSetsQuick
  MultiRanks <- NegRank
  Vals = {0, 1}
INVARIANTS SealedIsAcceptable
CHECK_DEADLOCK FALSE
