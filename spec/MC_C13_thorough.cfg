SPECIFICATION Spec
CONSTANTS
  ValSet <- ValKinds
  Contexts <- ContextsMore
INVARIANTS MachineMeetsTable Terminates
CHECK_DEADLOCK FALSE
