SPECIFICATION Spec
CONSTANTS
  MaxDepth = 2
  Mode = "typed"
  Contexts = {"field", "into_target", "variant_field", "tuple_field", "into_dup"}
INVARIANTS TypeOK TypedSane
CHECK_DEADLOCK FALSE
