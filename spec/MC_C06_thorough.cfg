SPECIFICATION Spec
CONSTANTS
  KindSet <- MCKindSet
  TypeOptSet <- MCTypeOptSet
  VarOptSet <- MCVarOptSet
  FieldSet <- MCFieldSet
  Admissible <- MCAdmissible
  MaxVariants = 2
  MaxFields = 2
  EnumSecondField = {"own", "ignore", "method"}
  MaxDeviations = 3
  Vals = {0, 1}
INVARIANTS ImplMeetsProp TextSane
CHECK_DEADLOCK FALSE
