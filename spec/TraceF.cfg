SPECIFICATION TraceSpec
POSTCONDITION TraceConsumed
CHECK_DEADLOCK FALSE
