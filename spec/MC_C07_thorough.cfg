SPECIFICATION Spec
CONSTANTS
  KindSet <- MCKindSet
  TypeOptSet <- MCTypeOptSet
  VarOptSet <- MCVarOptSet
  FieldSet <- MCFieldSet
  Admissible <- MCAdmissible
  MaxVariants = 2
  MaxFields = 3
  Narrow = FALSE
  Vals = {0, 1}
INVARIANTS ImplMeetsProp CloneFromIsClone
CHECK_DEADLOCK FALSE
