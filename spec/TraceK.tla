------------------------------- MODULE TraceK -------------------------------
(***************************************************************************)
(* Trace validation, channel K: the real compiler's verdict on items the   *)
(* specification says the macro must accept.  One record per item:         *)
(*   expand   -- outcome of the in-process expansion ("ok" = accepted),    *)
(*   errors   -- rustc error codes/messages attributed to the item,        *)
(*   warnings -- number of rustc warnings attributed to the item.          *)
(* C01: accepted  =>  no errors and no warnings; and every record in this  *)
(* trace comes from a configuration the specification calls acceptable, so *)
(* it must have been accepted (the converse half).                         *)
(***************************************************************************)
EXTENDS Naturals, Sequences, TLC, Json, IOUtils

Rec == ndJsonDeserialize(IOEnv.TRACE)
MaxBad == 400
VARIABLES l, bad
tvars == <<l, bad>>

Accept(e) ==
  /\ e.expand = "ok"
  /\ e.errors = <<>>
  /\ e.warnings = 0

TraceInit == l = 1 /\ bad = <<>>
Consume ==
  /\ l <= Len(Rec)
  /\ bad' = IF Accept(Rec[l]) \/ Len(bad) >= MaxBad THEN bad ELSE Append(bad, l)
  /\ l' = l + 1
Finish ==
  /\ l = Len(Rec) + 1
  /\ l' = l + 1
  /\ UNCHANGED bad
  /\ PrintT(<<"RESULT", ToJson([n |-> Len(Rec), bad |-> bad, learned |-> 0])>>)
TraceNext == Consume \/ Finish
TraceSpec == TraceInit /\ [][TraceNext]_tvars
TraceConsumed == TLCGet("stats").diameter = Len(Rec) + 2
=============================================================================
