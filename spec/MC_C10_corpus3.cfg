SPECIFICATION Spec
CONSTANTS
  KindSet <- MCKindSet
  TypeOptSet <- MCTypeOptSet
  VarOptSet <- MCVarOptSet
  FieldSet <- MCFieldSet
  Admissible <- MCAdmissible
  MaxVariants = 1
  MaxFields = 3
  MaxDeviations = 3
  Vals = {0, 1}
CONSTRAINT CorpusOnly
CHECK_DEADLOCK FALSE
