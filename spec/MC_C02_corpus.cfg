SPECIFICATION Spec
CONSTANTS
  KindSet <- MCKindSet
  TypeOptSet <- MCTypeOptSet
  VarOptSet <- MCVarOptSet
  FieldSet <- MCFieldSet
  Admissible <- MCAdmissible
  MaxVariants = 2
  MaxFields = 3
  MaxLawFields = 2
  Narrow = TRUE
  Vals = {0, 1}
CONSTRAINT CorpusOnly
CHECK_DEADLOCK FALSE
