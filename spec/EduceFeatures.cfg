SPECIFICATION Spec
INVARIANTS GatingClosed FeatureListAsExpected PairsComplementary EmitBoundary
CHECK_DEADLOCK FALSE
