------------------------------- MODULE MC_C05 -------------------------------
(***************************************************************************)
(* C05: the data an educed Hash feeds to a Hasher is a function of the     *)
(* variant and the non-ignored fields only (and injective on them).        *)
(***************************************************************************)
EXTENDS EduceRun, EduceBuild

VARIABLE run
vars == <<cfg, phase, run>>
NoRun == [op |-> "none"]

MCKindSet == {"struct", "enum"}
\* PartialEq is educed alongside with the same ignore choices (for the
\* consequence a == b => same feed)
\* Enums also come with a primitive representation and explicit discriminants that differ from the positions
\* (variant k, counted from 0, gets discriminant k + 1): whatever tag the implementation feeds for a variant, it
\* must keep the variants apart -- a tag taken from the position for some variants and from the discriminant for
\* others would not.
MCTypeOptSet(k) ==
  IF k = "enum" THEN { [DefOpts EXCEPT !.traits = <<"PartialEq", "Hash">>, !.repr = r] : r \in {"none", "usize", "i64"} }
  ELSE { [DefOpts EXCEPT !.traits = <<"PartialEq", "Hash">>] }
MCVarOptSet(c) ==
  { [DefVariant EXCEPT !.style = s, !.disc = IF c.opts.repr = "none" THEN NoDisc ELSE NVariants(c) + 1] : s \in Styles }
CONSTANT Narrow   \* TRUE: at most one variant wider than two fields (quick instance); FALSE: no such restriction
MCFieldSet(c) ==
  IF NVariants(c) > 0 /\ Narrow /\ ~MayWiden(c) THEN {}
  ELSE WithRef(c, { [DefField EXCEPT !.hash = t, !.eq = IF t = Ignore THEN Ignore ELSE Own] : t \in Treatments })
\* (rustc itself refuses a representation on a zero-variant enum, E0084)
MCAdmissible(c) == (Narrow => WideOK(c)) /\ (c.opts.repr # "none" => NVariants(c) >= 1)

Init == BuildInit /\ run = NoRun

Begin(a) ==
  /\ run = NoRun
  /\ run' = [op |-> "hash", a |-> a, pc |-> 1, started |-> FALSE, feed |-> <<>>, calls |-> <<>>, done |-> FALSE]
  /\ UNCHANGED <<cfg, phase>>

DoStart      == (\E k \in KindSet : \E o \in TypeOptSet(k) : Start(k, o)) /\ UNCHANGED run
DoAddVariant == (\E vo \in VarOptSet(cfg) : AddVariant(vo)) /\ UNCHANGED run
DoAddField   == (\E f \in FieldSet(cfg) : AddField(f)) /\ UNCHANGED run
DoSeal       == Seal /\ UNCHANGED run
DoBegin      == phase = "sealed" /\ \E a \in Values(cfg) : Begin(a)
Step ==
  /\ run # NoRun /\ ~run.done
  /\ run' = ImplHashStep(cfg, run)
  /\ UNCHANGED <<cfg, phase>>
Return ==
  /\ run # NoRun /\ run.done
  /\ run' = NoRun
  /\ UNCHANGED <<cfg, phase>>

Next == DoStart \/ DoAddVariant \/ DoAddField \/ DoSeal \/ DoBegin \/ Step \/ Return
Spec == Init /\ [][Next]_vars

Finished == run # NoRun /\ run.done

ImplMeetsDecl == Finished => run.feed = ImplHashFeed(cfg, run.a)
ImplMeetsProp == Finished => PropHashOne(cfg, run.a, run.calls, run.feed)

\* functional and injective on (variant, fed fields); and equality (with the
\* same ignore choices) implies the same feed
FeedFunctionOfKey ==
  (phase = "sealed" /\ run = NoRun) =>
    \A x \in Values(cfg) : \A y \in Values(cfg) :
      /\ (HashKey(cfg, x) = HashKey(cfg, y)) <=> (ImplHashFeed(cfg, x) = ImplHashFeed(cfg, y))
      /\ EqDecl(cfg, x, y) => ImplHashFeed(cfg, x) = ImplHashFeed(cfg, y)
\* corpus-only exploration (used where only the configurations are wanted, not the run machine): states in which a
\* run has begun are not expanded
CorpusOnly == run = NoRun
=============================================================================
