------------------------------- MODULE MC_C10 -------------------------------
(***************************************************************************)
(* C10: Into returns the designated field for every requested target.      *)
(* Resolution machine per (target, variant): marked field; else sole       *)
(* field; else the unique field of the target's type.                      *)
(***************************************************************************)
EXTENDS EduceRun, EduceBuild

CONSTANTS MaxDeviations

VARIABLE run
vars == <<cfg, phase, run>>
NoRun == [op |-> "none"]

MCKindSet == {"struct", "enum"}
MCTypeOptSet(k) ==
  { [DefOpts EXCEPT !.traits = <<"Into">>, !.targets = t] : t \in { <<"A">>, <<"A", "B">>, <<"B", "A">> } }
MCVarOptSet(c) == { [DefVariant EXCEPT !.style = s] : s \in {"named", "tuple"} }

Mk(t, m) == [t |-> t, m |-> m]
IntoChoices(c) ==
  LET hasB == "B" \in SeqToSet(c.opts.targets) IN
  { <<>>, <<Mk("A", FALSE)>>, <<Mk("A", TRUE)>> } \cup
  (IF hasB THEN { <<Mk("B", FALSE)>>, <<Mk("B", TRUE)>>, <<Mk("A", FALSE), Mk("B", FALSE)>>,
                  <<Mk("B", TRUE), Mk("A", FALSE)>>, <<Mk("A", TRUE), Mk("B", TRUE)>> } ELSE {})
B2N(b) == IF b THEN 1 ELSE 0
FieldDev(f) == B2N(f.ty # "P") + Len(f.into)
RECURSIVE FieldsDev(_)
FieldsDev(fs) == IF fs = <<>> THEN 0 ELSE FieldDev(Head(fs)) + FieldsDev(Tail(fs))
RECURSIVE VarsDev(_)
VarsDev(vs) == IF vs = <<>> THEN 0 ELSE FieldsDev(Head(vs).fields) + VarsDev(Tail(vs))

PlainVar(var) == Len(var.fields) = 1 /\ var.style = "tuple" /\ var.fields[1].into = <<>>

\* The space is pruned while it is built: a field is only on offer if the
\* deviation budget (non-P types + markers, t-way coverage) still allows it,
\* (both variants of an enum may be rich: what one variant leaves behind in a handler loop -- a method, a skip prefix --
\* only shows in the next one; the deviation budget is what keeps the space small).
MCFieldSet(c) ==
  IF NVariants(c) = 0 THEN {}
  ELSE LET lv == Last(c.variants)
           all == { [DefField EXCEPT !.ty = t, !.into = m] : t \in {"P", "A", "B"}, m \in IntoChoices(c) }
           afford == { f \in all : VarsDev(c.variants) + FieldDev(f) <= MaxDeviations }
       IN afford

MCBoundOK(c) ==
  /\ NVariants(c) >= 1
  /\ \A v \in 1..NVariants(c) : NFields(c, v) >= 1
  /\ VarsDev(c.variants) <= MaxDeviations
  \* what is left to the semantic predicate: the designation itself; an identity-less conversion from a
  \* target-typed field (A into B) is simply ill-typed user input, not a refusal, so it stays out of both corpora
  /\ \A v \in 1..NVariants(c) : \A k \in DOMAIN c.opts.targets :
        LET t == c.opts.targets[k] IN
          IntoField(c, v, t) # 0 => (IntoMode(c, v, t) = "convert" => c.variants[v].fields[IntoField(c, v, t)].ty = "P")
\* a target without a designated field, or with several
MCSemOK(c) == IntoWellDesignated(c)
MCAdmissible(c) == MCBoundOK(c) /\ MCSemOK(c)
DoSealBad == SealBad(MCBoundOK, MCSemOK) /\ UNCHANGED run

Init == BuildInit /\ run = NoRun

\* resolution machine: phase "marked" scans for markers, then "sole", then "type"
Begin(v, t) ==
  /\ run = NoRun
  /\ run' = [op |-> "resolve", v |-> v, t |-> t, stage |-> "sole", found |-> 0, done |-> FALSE]
  /\ UNCHANGED <<cfg, phase>>

DoStart      == (\E k \in KindSet : \E o \in TypeOptSet(k) : Start(k, o)) /\ UNCHANGED run
DoAddVariant == (\E vo \in VarOptSet(cfg) : AddVariant(vo)) /\ UNCHANGED run
DoAddField   == (\E f \in FieldSet(cfg) : AddField(f)) /\ UNCHANGED run
DoSeal       == Seal /\ UNCHANGED run
DoBegin ==
  /\ phase = "sealed"
  /\ \E v \in 1..NVariants(cfg) : \E k \in DOMAIN cfg.opts.targets : Begin(v, cfg.opts.targets[k])
Step ==
  /\ run # NoRun /\ ~run.done
  /\ run' =
       CASE run.stage = "sole" ->
              IF NFields(cfg, run.v) = 1 THEN [run EXCEPT !.done = TRUE, !.found = 1]
              ELSE [run EXCEPT !.stage = "marked"]
         [] run.stage = "marked" ->
              LET M == IntoMarked(cfg, run.v, run.t) IN
                IF Cardinality(M) = 1 THEN [run EXCEPT !.done = TRUE, !.found = CHOOSE i \in M : TRUE]
                ELSE IF M # {} THEN [run EXCEPT !.done = TRUE, !.found = 0]
                ELSE [run EXCEPT !.stage = "type"]
         [] OTHER ->
              LET S == IntoSameType(cfg, run.v, run.t) IN
                [run EXCEPT !.done = TRUE, !.found = IF Cardinality(S) = 1 THEN CHOOSE i \in S : TRUE ELSE 0]
  /\ UNCHANGED <<cfg, phase>>
Return ==
  /\ run # NoRun /\ run.done
  /\ run' = NoRun
  /\ UNCHANGED <<cfg, phase>>

Next == DoStart \/ DoAddVariant \/ DoAddField \/ DoSeal \/ DoSealBad \/ DoBegin \/ Step \/ Return
Spec == Init /\ [][Next]_vars

Finished == run # NoRun /\ run.done
ResolveMeetsDecl == Finished => (run.found = IntoField(cfg, run.v, run.t) /\ run.found # 0)
\* corpus-only exploration (used where only the configurations are wanted, not the run machine): states in which a
\* run has begun are not expanded
CorpusOnly == run = NoRun
=============================================================================
