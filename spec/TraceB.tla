------------------------------- MODULE TraceB -------------------------------
(***************************************************************************)
(* Trace validation for bounds and impl headers (C11, C12).  Records:      *)
(*   op = "applies" -- the real compiler's answer to "does the educed impl *)
(*                     of trait e.tr apply to Type<args>?" (C11), judged   *)
(*                     by Applies;                                         *)
(*   op = "impl"    -- one impl item of an in-process expansion with its   *)
(*                     generic parameters and where-predicates (C12),      *)
(*                     judged by PropImplHeader.                           *)
(***************************************************************************)
EXTENDS EduceBounds, Json, IOUtils

Types == ndJsonDeserialize(IOEnv.TYPES)
Rec   == ndJsonDeserialize(IOEnv.TRACE)
MaxBad == 40

VARIABLES l, bad, learned
tvars == <<l, bad, learned>>

Accept(e, c) ==
  CASE e.op = "applies" -> e.val = Applies(c, e.tr, e.args)
    [] e.op = "impl" -> PropImplHeader(c, e)
    [] e.op = "itemset" -> PropItemSet(c, e)
    [] OTHER -> FALSE

TraceInit == l = 1 /\ bad = <<>> /\ learned = <<>>
Consume ==
  /\ l <= Len(Rec)
  /\ LET e == Rec[l] IN
       bad' = IF Accept(e, Types[e.t]) \/ Len(bad) >= MaxBad THEN bad ELSE Append(bad, l)
  /\ UNCHANGED learned
  /\ l' = l + 1
Finish ==
  /\ l = Len(Rec) + 1
  /\ l' = l + 1
  /\ UNCHANGED <<bad, learned>>
  /\ PrintT(<<"RESULT", ToJson([n |-> Len(Rec), bad |-> bad, learned |-> learned])>>)
TraceNext == Consume \/ Finish
TraceSpec == TraceInit /\ [][TraceNext]_tvars
TraceConsumed == TLCGet("stats").diameter = Len(Rec) + 2
=============================================================================
