SPECIFICATION Spec
CONSTANTS
  KindSet <- MCKindSet
  TypeOptSet <- MCTypeOptSet
  VarOptSet <- MCVarOptSet
  FieldSet <- MCFieldSet
  Admissible <- MCAdmissible
  MaxVariants = 2
  MaxFields = 3
  RichFields = 2
  EnumRichFields = 2
  RankSet <- RanksEdge
  EnumRankSet <- RanksEdgeEnum
  SimpleStyles = {"unit", "tuple"}
  MaxLawValues = 8
  PairMode = FALSE
  Vals = {0, 1}
CONSTRAINT CorpusOnly
CHECK_DEADLOCK FALSE
