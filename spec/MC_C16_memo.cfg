SPECIFICATION Spec
CONSTANTS
  MaxTargets = 1
  MapOrder = "ordered"
  Memo = "by_name"
  OtherTraits = {{"PartialOrd"}}
INVARIANTS Deterministic
CHECK_DEADLOCK FALSE
