SPECIFICATION Spec
CONSTANTS
  MaxTargets = 2
  MapOrder = "hashed"
  OtherTraits = {{}}
INVARIANTS Deterministic
CHECK_DEADLOCK FALSE
