SPECIFICATION Spec
CONSTANTS
  MaxTargets = 2
  MapOrder = "hashed"
  Memo = "none"
  OtherTraits = {{}}
INVARIANTS Deterministic
CHECK_DEADLOCK FALSE
