---------------------------- MODULE EduceSyntax ----------------------------
(***************************************************************************)
(* Abstract syntax shared by every level of the educe specification.       *)
(*                                                                         *)
(* A *configuration* (cfg) is the abstract form of one                     *)
(*     #[derive(Educe)] #[educe(...)] struct/enum/union ...                *)
(* item: its kind, its type-level options, and a sequence of variants      *)
(* (a struct or union is a configuration with exactly one variant), each   *)
(* with a style and a sequence of fields, each field carrying the          *)
(* *resolved* per-trait attributes (what `#[educe(Trait(...))]` on that    *)
(* field means after parsing; spelling is a separate dimension, see        *)
(* EduceScan).                                                             *)
(*                                                                         *)
(* A *value* of a configuration is [v |-> variant index, f |-> <<field     *)
(* values>>]; field values range over a small integer domain.  NaN stands  *)
(* for a value that is incomparable under partial_cmp (and only there).    *)
(***************************************************************************)
EXTENDS Naturals, Integers, Sequences, FiniteSets, TLC

Traits == <<"Debug", "Clone", "Copy", "PartialEq", "Eq", "PartialOrd", "Ord",
            "Hash", "Default", "Deref", "DerefMut", "Into">>
TraitSet == {Traits[i] : i \in DOMAIN Traits}

Kinds  == {"struct", "enum", "union"}
Styles == {"unit", "named", "tuple"}

\* how one trait treats one field
Own    == "own"      \* delegate to the field type's own impl
Ignore == "ignore"   \* #[educe(T(ignore))] / #[educe(T = false)]
Method == "method"   \* #[educe(T(method(path)))]
Treatments == {Own, Ignore, Method}

NoRank == -999       \* no explicit rank: isize::MIN + declaration index
NoDisc == -999       \* no explicit discriminant: previous + 1 (0 for the first)
MinRank == -100000   \* stands for isize::MIN

\* The universal field record.  Every MC module starts from DefField and
\* overrides the keys of the trait(s) it studies.
DefField ==
  [ eq    |-> Own,     \* PartialEq treatment (given via PartialEq(..) or Eq(..))
    ord   |-> Own,     \* PartialOrd/Ord treatment
    rank  |-> NoRank,  \* explicit rank or NoRank
    hash  |-> Own,     \* Hash treatment
    dbg   |-> Own,     \* Debug treatment
    key   |-> "",      \* Debug rename ("" = none)
    clone |-> Own,     \* Clone treatment (Own / Method)
    dflt  |-> "none",  \* Default source: "none" (Default::default()), or a literal class
    deref |-> FALSE,   \* #[educe(Deref)] marker
    dmut  |-> FALSE,   \* #[educe(DerefMut)] marker
    into  |-> <<>>,    \* sequence of [t |-> target, m |-> BOOLEAN] markers
    ty    |-> "P"      \* field type class
  ]

DefVariant ==
  [ style  |-> "unit",
    fields |-> <<>>,
    disc   |-> NoDisc,   \* explicit discriminant or NoDisc
    dname  |-> "default",\* variant-level Debug name: "default" | "off" | "custom"
    dnf    |-> "default",\* variant-level named_field: "default" | "true" | "false"
    dflt   |-> FALSE     \* #[educe(Default)] marker
  ]

DefOpts ==
  [ traits |-> <<>>,      \* educed traits, in attribute order
    eqvia  |-> "PartialEq", \* which attribute name carries eq parameters on fields
    ordvia |-> "Ord",     \* idem for ordering parameters
    dname  |-> "default", \* type-level Debug name: "default" | "off" | "on" | "custom"
    dnf    |-> "default", \* type-level named_field
    repr   |-> "none",
    targets |-> <<>>,     \* requested Into targets
    gen    |-> "none",    \* generics descriptor (EduceBounds)
    bounds |-> ("-" :> "auto"),   \* trait -> bound mode ("auto" when absent); a function with a set-of-strings domain
    newfn  |-> FALSE,
    dexpr  |-> FALSE
  ]

NVariants(c) == Len(c.variants)
NFields(c, v) == Len(c.variants[v].fields)
FieldIdx(c, v) == 1..NFields(c, v)
HasTrait(c, t) == \E i \in DOMAIN c.opts.traits : c.opts.traits[i] = t

\* ---------------------------------------------------------------- values
CONSTANT Vals          \* the field value domain of a bounded instance, e.g. {0, 1} or {0, 1, 2}
NaN  == 9

\* all values of variant v of configuration c over the value domain D
ValuesOfVariant(c, v, D) ==
  { [v |-> v, f |-> fs] : fs \in [1..NFields(c, v) -> D] }

ValuesOver(c, D) == UNION { ValuesOfVariant(c, v, D) : v \in 1..NVariants(c) }
Values(c) == ValuesOver(c, Vals)

\* ------------------------------------------------------------- utilities
SeqToSet(s) == { s[i] : i \in DOMAIN s }
Last(s) == s[Len(s)]
ReplaceLast(s, x) == [s EXCEPT ![Len(s)] = x]

RECURSIVE SeqFilter(_, _)
\* indices of s (ascending) satisfying Test
IndicesWhere(n, Test(_)) == { i \in 1..n : Test(i) }

\* the ascending enumeration of a finite set of naturals as a sequence
RECURSIVE SortedSeq(_)
SortedSeq(S) ==
  IF S = {} THEN <<>>
  ELSE LET m == CHOOSE x \in S : \A y \in S : x <= y
       IN <<m>> \o SortedSeq(S \ {m})
SeqFilter(s, keep) ==
  IF s = <<>> THEN <<>>
  ELSE IF Head(s) \in keep THEN <<Head(s)>> \o SeqFilter(Tail(s), keep)
       ELSE SeqFilter(Tail(s), keep)

=============================================================================
