----------------------------- MODULE EduceMulti -----------------------------
(***************************************************************************)
(* Multi-trait configurations: many traits educed on the same item, each   *)
(* with attributes of its own on the same variants and fields.  Used by    *)
(* the expansion-level instances (C13-C17, C11, C12, C01, C19).            *)
(*                                                                         *)
(* The space is the t-way one: at most MaxDeviations settings differ from  *)
(* the default, and it is pruned while it is built.                        *)
(***************************************************************************)
EXTENDS EduceRun, EduceBuild

CONSTANTS MaxDeviations,    \* struct budget
          EnumDeviations,   \* enum budget
          TraitSets, MultiRanks

B2N(b) == IF b THEN 1 ELSE 0

\* deviations of one field / variant / the type options
FieldDev(f) ==
  B2N(f.eq # Own) + B2N(f.ord # Own) + B2N(f.rank # NoRank) + B2N(f.hash # Own) + B2N(f.dbg # Own)
  + B2N(f.key # "") + B2N(f.clone # Own) + B2N(f.dflt # "none") + B2N(f.deref) + B2N(f.dmut) + B2N(f.into # <<>>)
RECURSIVE FieldsDev(_)
FieldsDev(fs) == IF fs = <<>> THEN 0 ELSE FieldDev(Head(fs)) + FieldsDev(Tail(fs))
VarDev(var) == B2N(var.dname # "default") + B2N(var.dnf # "default") + FieldsDev(var.fields)
RECURSIVE VarsDev(_)
VarsDev(vs) == IF vs = <<>> THEN 0 ELSE VarDev(Head(vs)) + VarsDev(Tail(vs))
OptsDev(o) ==
  B2N(o.dname # "default") + B2N(o.dnf # "default") + B2N(o.newfn)
  \* which attribute name carries the parameters is only a choice when both partners are educed
  + B2N(o.eqvia = "Eq" /\ {"PartialEq", "Eq"} \subseteq SeqToSet(o.traits))
  + B2N(o.ordvia = "PartialOrd" /\ {"PartialOrd", "Ord"} \subseteq SeqToSet(o.traits))
Deviations(c) == OptsDev(c.opts) + VarsDev(c.variants)

Has(c, t) == HasTrait(c, t)

\* ---- tweak-based generation: a configuration is the default one plus at
\* most MaxDev(kind) single-setting tweaks, generated incrementally
MaxDev(k) == IF k = "struct" THEN MaxDeviations ELSE EnumDeviations

OptTweaks(k, ts) ==
  LET has(t) == t \in SeqToSet(ts) IN
  (IF has("Debug") THEN (IF k = "struct" THEN {"dname_off", "dname_custom", "dnf_true", "dnf_false"}
                                         ELSE {"dname_on", "dname_custom"}) ELSE {})
  \cup (IF has("Default") THEN {"newfn"} ELSE {})
  \cup (IF has("PartialEq") /\ has("Eq") THEN {"eqvia"} ELSE {})
  \cup (IF has("PartialOrd") /\ has("Ord") THEN {"ordvia"} ELSE {})
ApplyOpt(o, tw) ==
  CASE tw = "dname_off" -> [o EXCEPT !.dname = "off"]
    [] tw = "dname_on" -> [o EXCEPT !.dname = "on"]
    [] tw = "dname_custom" -> [o EXCEPT !.dname = "custom"]
    [] tw = "dnf_true" -> [o EXCEPT !.dnf = "true"]
    [] tw = "dnf_false" -> [o EXCEPT !.dnf = "false"]
    [] tw = "newfn" -> [o EXCEPT !.newfn = TRUE]
    [] tw = "eqvia" -> [o EXCEPT !.eqvia = "Eq"]
    [] tw = "ordvia" -> [o EXCEPT !.ordvia = "PartialOrd"]

MultiTypeOptSet(k) ==
  UNION { LET base == [DefOpts EXCEPT !.traits = ts, !.targets = IF "Into" \in SeqToSet(ts) THEN <<"A", "B">> ELSE <<>>]
              one == { ApplyOpt(base, tw) : tw \in OptTweaks(k, ts) }
              two == { ApplyOpt(o, tw) : o \in one, tw \in OptTweaks(k, ts) }
          IN {base} \cup (IF MaxDev(k) >= 1 THEN one ELSE {})
                    \cup (IF MaxDev(k) >= 2 THEN { o \in two : OptsDev(o) = 2 } ELSE {})
        : ts \in TraitSets }

VarTweaks(c) ==
  (IF c.kind = "enum" /\ Has(c, "Debug") THEN {"dname_off", "dname_custom", "dnf_true", "dnf_false"} ELSE {})
ApplyVar(vo, tw) ==
  CASE tw = "dname_off" -> [vo EXCEPT !.dname = "off"]
    [] tw = "dname_custom" -> [vo EXCEPT !.dname = "custom"]
    [] tw = "dnf_true" -> [vo EXCEPT !.dnf = "true"]
    [] tw = "dnf_false" -> [vo EXCEPT !.dnf = "false"]

MultiVarOptSet(c) ==
  LET budget == MaxDev(c.kind) - Deviations(c)
      bases == { [DefVariant EXCEPT !.style = s, !.dflt = m] :
                   s \in Styles, m \in (IF c.kind = "enum" /\ Has(c, "Default") THEN BOOLEAN ELSE {FALSE}) }
      one == { ApplyVar(b, tw) : b \in bases, tw \in VarTweaks(c) }
      two == { ApplyVar(o, tw) : o \in one, tw \in VarTweaks(c) }
  IN { vo \in bases \cup (IF budget >= 1 THEN one ELSE {}) \cup (IF budget >= 2 THEN { o \in two : VarDev(o) = 2 } ELSE {}) :
         vo.style = "unit" => vo.dnf = "default" }

FieldTweaks(c) ==
  LET ordered == Has(c, "PartialOrd") \/ Has(c, "Ord")
      lv == Last(c.variants)
      defaultable == Has(c, "Default") /\ (c.kind = "struct" \/ lv.dflt)
  IN (IF Has(c, "PartialEq") THEN {"eq_i", "eq_m"} ELSE {})
     \cup (IF ordered THEN {"ord_i", "ord_m", "rank"} ELSE {})
     \cup (IF Has(c, "Hash") THEN {"hash_i", "hash_m"} ELSE {})
     \cup (IF Has(c, "Debug") THEN {"dbg_i", "dbg_m", "key"} ELSE {})
     \cup (IF Has(c, "Clone") /\ ~(c.kind = "struct" /\ Has(c, "Copy")) THEN {"clone_m"} ELSE {})
     \cup (IF defaultable THEN {"dflt_int", "dflt_expr"} ELSE {})
     \cup (IF Has(c, "Into") THEN {"into_a", "into_am", "into_ab", "into_amb"} ELSE {})
Mk(t, m) == [t |-> t, m |-> m]
ApplyField(f, tw) ==
  CASE tw = "eq_i" -> [f EXCEPT !.eq = Ignore]   [] tw = "eq_m" -> [f EXCEPT !.eq = Method]
    [] tw = "ord_i" -> [f EXCEPT !.ord = Ignore] [] tw = "ord_m" -> [f EXCEPT !.ord = Method]
    [] tw = "rank" -> [f EXCEPT !.rank = CHOOSE r \in MultiRanks : TRUE]
    [] tw = "hash_i" -> [f EXCEPT !.hash = Ignore] [] tw = "hash_m" -> [f EXCEPT !.hash = Method]
    [] tw = "dbg_i" -> [f EXCEPT !.dbg = Ignore] [] tw = "dbg_m" -> [f EXCEPT !.dbg = Method]
    [] tw = "key" -> [f EXCEPT !.key = "k"]
    [] tw = "clone_m" -> [f EXCEPT !.clone = Method]
    [] tw = "dflt_int" -> [f EXCEPT !.dflt = "int"] [] tw = "dflt_expr" -> [f EXCEPT !.dflt = "expr"]
    \* Into markers (the field-level tweak counts once per marker)
    [] tw = "into_a" -> [f EXCEPT !.into = <<Mk("A", FALSE)>>]
    [] tw = "into_am" -> [f EXCEPT !.into = <<Mk("A", TRUE)>>]
    [] tw = "into_ab" -> [f EXCEPT !.into = <<Mk("A", FALSE), Mk("B", FALSE)>>]
    [] tw = "into_amb" -> [f EXCEPT !.into = <<Mk("A", TRUE), Mk("B", FALSE)>>]

MultiFieldSet(c) ==
  IF NVariants(c) = 0 THEN {}
  ELSE LET budget == MaxDev(c.kind) - Deviations(c)
           one == { ApplyField(DefField, tw) : tw \in FieldTweaks(c) }
           two == { ApplyField(f, tw) : f \in one, tw \in FieldTweaks(c) }
           lv == Last(c.variants)
           \* bounded instance: in a two-variant enum the variant that is not "rich" is V or V(P)
           plainOnly == c.kind = "enum" /\ NVariants(c) = 2 /\ (VarDev(c.variants[1]) > 0 \/ Len(c.variants[1].fields) > 1
                                                                   \/ c.variants[1].style = "named")
       IN IF plainOnly THEN (IF lv.style = "tuple" /\ Len(lv.fields) = 0 /\ VarDev(lv) = 0 THEN {DefField} ELSE {})
          ELSE { f \in {DefField} \cup (IF budget >= 1 THEN one ELSE {}) \cup (IF budget >= 2 THEN { g \in two : FieldDev(g) = 2 } ELSE {}) :
                   f.dbg = Ignore => f.key = "" }

\* what the macro must accept: everything the per-trait specifications call
\* well designated
MultiAdmissible(c) ==
  /\ NVariants(c) >= 1
  /\ Deviations(c) <= MaxDev(c.kind)
  /\ (c.kind = "enum" /\ NVariants(c) = 2) =>
        \E v \in 1..2 : VarDev(c.variants[v]) = 0 /\ c.variants[v].style # "named" /\ Len(c.variants[v].fields) <= 1
  /\ (Has(c, "PartialOrd") \/ Has(c, "Ord")) => RanksUnique(c)
  /\ Has(c, "Debug") => DebugPrintable(c)
  /\ Has(c, "Default") => DefaultWellDesignated(c)
  /\ Has(c, "Into") => IntoWellDesignated(c)
  /\ (c.kind = "enum" /\ NVariants(c) > 1 /\ ~Has(c, "Default")) => \A v \in 1..NVariants(c) : ~c.variants[v].dflt
=============================================================================
