------------------------------- MODULE TraceX -------------------------------
(***************************************************************************)
(* Trace validation, channel X: every record is one expansion of a         *)
(* derive input by the real macro entry point (in process, or through the  *)
(* real compiler for confirmations).  A record carries                     *)
(*   outcome in {"ok", "err", "panic", "timeout", "abort"},                *)
(*   out     = digest of the produced token stream (ok only),              *)
(*   mode    = how the record is judged:                                   *)
(*     "same"   -- all records with the same group key g must be "ok" and  *)
(*                 carry the same tokens (C14 spelling groups, C15 trait   *)
(*                 independence, C16 determinism); the first record of a   *)
(*                 group is *learned*, later ones must agree (S4);         *)
(*     "expect" -- the outcome predicted by the specification, e.expect    *)
(*                 (C13: "err", C01: "ok");                                *)
(*     "total"  -- the macro terminated with items or a diagnostic (C17).  *)
(***************************************************************************)
EXTENDS Naturals, Sequences, FiniteSets, TLC, Json, IOUtils

Rec == ndJsonDeserialize(IOEnv.TRACE)
MaxBad == 40

VARIABLES l, bad, seen
tvars == <<l, bad, seen>>

Total(e) == e.outcome \in {"ok", "err"}

Accept(e) ==
  CASE e.mode = "same" ->
         /\ e.outcome = "ok"
         /\ (~e.reset /\ e.g \in DOMAIN seen) => seen[e.g] = e.out
    [] e.mode = "expect" -> e.outcome = e.expect
    [] e.mode = "total" -> Total(e)
    [] OTHER -> FALSE

TraceInit == l = 1 /\ bad = <<>> /\ seen = ("_" :> "_")

Consume ==
  /\ l <= Len(Rec)
  /\ LET e == Rec[l] IN
       /\ bad' = IF Accept(e) \/ Len(bad) >= MaxBad THEN bad ELSE Append(bad, l)
       \* e.reset: the harness promises that no earlier group is referred to again
       \* (groups are contiguous in C14/C15 traces), so what was learned can be dropped
       /\ LET base == IF e.reset THEN ("_" :> "_") ELSE seen IN
            seen' = IF e.mode = "same" /\ e.outcome = "ok" /\ e.g \notin DOMAIN base
                    THEN (e.g :> e.out) @@ base ELSE base
  /\ l' = l + 1

Finish ==
  /\ l = Len(Rec) + 1
  /\ l' = l + 1
  /\ UNCHANGED <<bad, seen>>
  /\ PrintT(<<"RESULT", ToJson([n |-> Len(Rec), bad |-> bad, learned |-> Cardinality(DOMAIN seen) - 1])>>)

TraceNext == Consume \/ Finish
TraceSpec == TraceInit /\ [][TraceNext]_tvars
TraceConsumed == TLCGet("stats").diameter = Len(Rec) + 2
=============================================================================
