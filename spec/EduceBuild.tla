----------------------------- MODULE EduceBuild -----------------------------
(***************************************************************************)
(* The configuration builder: a configuration is built by actions, not     *)
(* chosen in Init, so that exhaustive TLC runs explore the finite tree of  *)
(* partial configurations and `tlc -simulate` walks random branches of the *)
(* same tree beyond the exhaustive bound.                                  *)
(*                                                                         *)
(* Each configuration is reached by exactly one action sequence            *)

(*   Start(kind, opts) ; ( AddVariant(vopt) ; AddField(f)* )* ; Seal       *)
(* so the Seal action fires once per configuration; it prints the          *)
(* configuration as a CORPUS line, from which the harness renders the real *)
(* `#[derive(Educe)]` item.                                                *)
(*                                                                         *)
(* The including MC module fixes the space through the constants below.    *)
(***************************************************************************)
EXTENDS EduceSyntax, Json

CONSTANTS
  KindSet,          \* subset of Kinds
  TypeOptSet(_),    \* kind -> set of type-level option records
  VarOptSet(_),     \* partial cfg -> set of variant records (fields empty) that may be appended
  FieldSet(_),      \* partial cfg -> set of field records that may be appended to the last variant
  MaxVariants,      \* enum variant bound
  MaxFields,        \* per-variant field bound
  Admissible(_)     \* cfg -> BOOLEAN: may this configuration be sealed?

VARIABLES cfg, phase

NoCfg == [kind |-> "none", opts |-> DefOpts, variants |-> <<>>]

\* The field-type dimension of the run-time corpora: a field is declared as the probe `P` or as a shared reference
\* to one (`&'static P`).  For ==, ordering, hashing and formatting the std impls for references delegate to the
\* referent, so the specification is the same; what differs is the code path inside the macro (where-predicates on
\* the field type, handlers that look at the type as written, the argument a custom method receives).  Only the
\* first field of the first variant is offered as a reference, which at most doubles the space.
HasNonProbeField(c) == \E v \in 1..Len(c.variants) : \E i \in DOMAIN c.variants[v].fields : c.variants[v].fields[i].ty # "P"
WithRef(c, S) ==
  S \cup (IF Len(c.variants) = 1 /\ Len(c.variants[1].fields) = 0 /\ ~HasNonProbeField(c) THEN { [f EXCEPT !.ty = "ref"] : f \in S } ELSE {})

BuildInit == cfg = NoCfg /\ phase = "init"

Start(k, o) ==
  /\ phase = "init"
  /\ cfg' = [kind |-> k, opts |-> o, variants |-> <<>>]
  /\ phase' = "build"

VariantLimit(k) == IF k = "enum" THEN MaxVariants ELSE 1

AddVariant(vo) ==
  /\ phase = "build"
  /\ NVariants(cfg) < VariantLimit(cfg.kind)
  /\ cfg.kind = "union" => vo.style = "named"
  /\ cfg' = [cfg EXCEPT !.variants = Append(@, vo)]
  /\ UNCHANGED phase

AddField(f) ==
  /\ phase = "build"
  /\ NVariants(cfg) > 0
  /\ LET lv == Last(cfg.variants) IN
       /\ lv.style # "unit"
       /\ Len(lv.fields) < MaxFields
       /\ cfg' = [cfg EXCEPT !.variants =
                    ReplaceLast(@, [lv EXCEPT !.fields = Append(@, f)])]
  /\ UNCHANGED phase

WellFormed(c) ==
  /\ c.kind \in {"struct", "union"} => NVariants(c) = 1
  /\ c.kind = "union" => NFields(c, 1) >= 1
  /\ \A v \in 1..NVariants(c) : c.variants[v].style = "unit" => NFields(c, v) = 0

Seal ==
  /\ phase = "build"
  /\ WellFormed(cfg)
  /\ Admissible(cfg)
  /\ phase' = "sealed"
  /\ UNCHANGED cfg
  /\ PrintT(<<"CORPUS", ToJson(cfg)>>)

\* Bounded-instance helper: "at most one variant is wider than two fields, and
\* then every other variant is `V` or `V(x)`".  MayWiden prunes while building,
\* WideOK is the matching Seal-time condition.
WideOK(c) ==
  \A v \in 1..NVariants(c) : NFields(c, v) > 2 =>
     \A w \in 1..NVariants(c) : w # v => (NFields(c, w) <= 1 /\ c.variants[w].style # "named")
MayWiden(c) ==
  LET n == NVariants(c)
      lv == Last(c.variants)
      othersNarrow == \A w \in 1..(n - 1) : NFields(c, w) <= 1 /\ c.variants[w].style # "named"
      someWide == \E w \in 1..(n - 1) : NFields(c, w) > 2
  IN /\ Len(lv.fields) >= 2 => othersNarrow
     /\ someWide => (Len(lv.fields) < 1 /\ lv.style # "named")

\* A configuration inside the bounded instance that the per-trait specification says the macro must REFUSE
\* (ambiguous / missing designation, clashing ranks, nothing to print, ...): emitted as a NEG line; the harness
\* renders it like any other configuration and expects a diagnostic (C13).
SealBad(BoundOK(_), SemOK(_)) ==
  /\ phase = "build"
  /\ WellFormed(cfg)
  /\ BoundOK(cfg) /\ ~SemOK(cfg)
  /\ phase' = "refused"
  /\ UNCHANGED cfg
  /\ PrintT(<<"NEG", ToJson(cfg)>>)

BuildNext ==
  \/ \E k \in KindSet : \E o \in TypeOptSet(k) : Start(k, o)
  \/ \E vo \in VarOptSet(cfg) : AddVariant(vo)
  \/ \E f \in FieldSet(cfg) : AddField(f)
  \/ Seal

=============================================================================
