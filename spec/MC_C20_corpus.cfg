SPECIFICATION Spec
CONSTANTS
  KindSet <- MCKindSet
  TypeOptSet <- MCTypeOptSet
  VarOptSet <- MCVarOptSet
  FieldSet <- MCFieldSet
  Admissible <- MCAdmissible
  MaxVariants = 1
  MaxFields = 2
  UnionTypes = {"u8", "u16", "a3", "u32", "a16x4"}
  Vals = {0, 1}
CONSTRAINT CorpusOnly
CHECK_DEADLOCK FALSE
