SPECIFICATION Spec
CONSTANTS
  KindSet <- MCKindSet
  TypeOptSet <- MCTypeOptSet
  VarOptSet <- MCVarOptSet
  FieldSet <- MCFieldSet
  Admissible <- MCAdmissible
  MaxVariants = 2
  MaxFields = 3
  RichFields = 3
  EnumRichFields = 2
  RankSet <- RanksQuick
  EnumRankSet = {2}
  SimpleStyles = {"unit", "tuple", "named"}
  MaxLawValues = 8
  PairMode = FALSE
  Vals = {0, 1}
INVARIANTS ImplMeetsDecl ImplMeetsProp NoneOnlyFromNaN IgnoredIrrelevant Laws
CHECK_DEADLOCK FALSE
