SPECIFICATION Spec
CONSTANTS
  KindSet <- MCKindSet
  TypeOptSet <- MCTypeOptSet
  VarOptSet <- MCVarOptSet
  FieldSet <- MCFieldSet
  Admissible <- MCAdmissible
  MaxVariants = 1
  MaxFields = 3
  UnionTypes = {"u8", "u16", "a3", "u32", "a16x4"}
  Vals = {0, 1}
INVARIANTS ViewIsAllBytes TextInjective
CHECK_DEADLOCK FALSE
