------------------------------- MODULE MC_C13 -------------------------------
(***************************************************************************)
(* C13 (and C17, C01-converse): every (context, meta) pair within the      *)
(* bounds, with the verdict of the scanner specification.  The harness     *)
(* injects the meta at the context's position of a neutral base item and   *)
(* expands it: "err" metas must be refused with a diagnostic, "ok" metas   *)
(* must be accepted, and nothing may panic.                                *)
(***************************************************************************)
EXTENDS EduceScan, Json

CONSTANTS ValSet,        \* value kinds used for single parameters and Trait = v
          Contexts       \* the contexts to enumerate

VARIABLES ctx, meta, st, phase
vars == <<ctx, meta, st, phase>>

ParamNames == {"name", "rename", "named_field", "ignore", "method", "rank", "bound", "new", "expression", "expr", "bogus"}

\* one canonical, accepted way to write each parameter (used for pairs)
CanonParam(n) ==
  CASE n \in {"name", "rename"} -> [name |-> n, form |-> "nv", val |-> "ident"]
    [] n = "named_field" -> [name |-> n, form |-> "nv", val |-> "bool_t"]
    [] n = "ignore" -> [name |-> n, form |-> "path", val |-> NoVal]
    [] n = "method" -> [name |-> n, form |-> "list", val |-> "path2"]
    [] n = "rank" -> [name |-> n, form |-> "nv", val |-> "int"]
    [] n = "bound" -> [name |-> n, form |-> "list", val |-> "preds"]
    [] n = "new" -> [name |-> n, form |-> "path", val |-> NoVal]
    [] n \in {"expression", "expr"} -> [name |-> n, form |-> "nv", val |-> "call"]
    [] OTHER -> [name |-> n, form |-> "nv", val |-> "int"]

SingleParams ==
  { [name |-> n, form |-> "path", val |-> NoVal] : n \in ParamNames }
  \cup { [name |-> n, form |-> f, val |-> v] : n \in ParamNames, f \in {"nv", "list"}, v \in ValSet }

Traits13 == AllTraits \cup {"Bogus"}

\* Into(Type [, parameters]): every kind of thing in the type slot, then no / one / two parameters
IntoTySet == {"req", "other", "path2", "int", "str_ident", "star", "none"}
IntoParamNames == {"bound", "method", "bogus"}
IntoSingles == { p \in SingleParams : p.name \in IntoParamNames }
IntoMetas ==
  { [t |-> "Into", form |-> "list", val |-> NoVal, uns |-> "no", params |-> <<>>, ty |-> y] : y \in IntoTySet }
  \cup { [t |-> "Into", form |-> "list", val |-> NoVal, uns |-> "no", params |-> <<p>>, ty |-> y] : y \in {"req", "other"}, p \in IntoSingles }
  \cup { [t |-> "Into", form |-> "list", val |-> NoVal, uns |-> "no", params |-> <<CanonParam(a), CanonParam(b)>>, ty |-> "req"] :
           a \in IntoParamNames, b \in IntoParamNames }
  \cup { [t |-> "Into", form |-> "list", val |-> NoVal, uns |-> "first", params |-> <<>>, ty |-> "req"] }
\* the metas on offer in a context
MetasFor(c) ==
  LET ts == IF c.pos = "type" THEN (c.inject \cup {"Bogus"}) ELSE Traits13
      unsSet == IF c.pos = "type" THEN {"no", "first"} ELSE {"no"}
  IN IF c.light
     THEN { [t |-> t, form |-> "path", val |-> NoVal, uns |-> "no", params |-> <<>>, ty |-> "-"] : t \in Traits13 }
          \cup { [t |-> t, form |-> "list", val |-> NoVal, uns |-> "no", params |-> <<>>, ty |-> "-"] : t \in Traits13 }
          \cup { [t |-> t, form |-> "nv", val |-> "ident", uns |-> "no", params |-> <<>>, ty |-> "-"] : t \in Traits13 }
     ELSE
     (IF "Into" \in c.educed THEN IntoMetas ELSE {})
     \cup { [t |-> t, form |-> "path", val |-> NoVal, uns |-> "no", params |-> <<>>, ty |-> "-"] : t \in ts }
     \cup { [t |-> t, form |-> "nv", val |-> v, uns |-> "no", params |-> <<>>, ty |-> "-"] : t \in ts, v \in ValSet }
     \cup { [t |-> t, form |-> "list", val |-> NoVal, uns |-> u, params |-> <<>>, ty |-> "-"] : t \in ts, u \in unsSet }
     \* (Into's parameter lists start with a type: they come from IntoMetas)
     \cup { [t |-> t, form |-> "list", val |-> NoVal, uns |-> u, params |-> <<p>>, ty |-> "-"] : t \in ts \ {"Into"}, u \in unsSet, p \in SingleParams }
     \cup { [t |-> t, form |-> "list", val |-> NoVal, uns |-> "no", params |-> <<CanonParam(a), CanonParam(b)>>, ty |-> "-"] :
              t \in ts \ {"Into"}, a \in ParamNames, b \in ParamNames }
     \* the same parameter twice where the first occurrence says "false" (a reset check that looks at the value
     \* instead of at "was it given" lets this one through), in both orders
     \cup { [t |-> t, form |-> "list", val |-> NoVal, uns |-> "no", params |-> <<[name |-> a, form |-> "nv", val |-> "bool_f"], CanonParam(a)>>, ty |-> "-"] :
              t \in ts \ {"Into"}, a \in ParamNames }
     \cup { [t |-> t, form |-> "list", val |-> NoVal, uns |-> "no", params |-> <<[name |-> a, form |-> "list", val |-> "bool_f"], [name |-> a, form |-> "nv", val |-> "bool_f"]>>, ty |-> "-"] :
              t \in ts \ {"Into"}, a \in ParamNames }
     \cup (IF c.pos = "type"
           THEN { [t |-> t, form |-> "list", val |-> NoVal, uns |-> "later", params |-> <<CanonParam(a)>>, ty |-> "-"] : t \in ts \ {"Into"}, a \in {"name", "bound"} }
           ELSE {})

NoMeta == [t |-> "-", form |-> "path", val |-> NoVal, uns |-> "no", params |-> <<>>, ty |-> "-"]

NoCtx == [pos |-> "-"]

Init == ctx = NoCtx /\ meta = NoMeta /\ st = ScanInit /\ phase = "choose"

Choose ==
  /\ phase = "choose"
  /\ \E c \in Contexts : \E m \in MetasFor(c) :
       /\ ctx' = c /\ meta' = m /\ st' = ScanInit
  /\ phase' = "scan"

\* the parameter loop only runs for list metas that passed the form checks
Scanning == phase = "scan" /\ st.verdict = "scanning"
FormVerdict ==
  IF meta.t \notin AllTraits THEN "err"
  ELSE IF ctx.pos # "type" /\ meta.t \notin ctx.educed THEN "err"
  ELSE IF meta.t = "Into" THEN
    (IF ctx.kind = "union" \/ ctx.pos = "variant" \/ meta.form # "list" \/ meta.uns # "no" \/ ~IntoTypeOK(meta.ty)
        \/ (ctx.pos = "field" /\ meta.ty # "req") THEN "err" ELSE "loop")
  ELSE LET tab == Table(ctx, meta.t) IN
    CASE meta.form = "path" -> IF tab.path THEN "ok" ELSE "err"
      [] meta.form = "nv" -> IF tab.nv # "" /\ Acc(tab.nv, "nv", meta.val) THEN "ok" ELSE "err"
      [] OTHER ->
           IF meta.uns = "later" THEN "err"
           ELSE IF meta.uns = "first" /\ tab.unsafe = "no" THEN "err"
           ELSE IF meta.uns = "no" /\ tab.unsafe = "req" THEN "err"
           ELSE IF meta.params = <<>> THEN (IF tab.empty \/ meta.uns = "first" THEN "ok" ELSE "err")
           ELSE "loop"

Step ==
  /\ Scanning
  /\ st' = IF FormVerdict = "loop" THEN ScanStep(ctx, meta, st) ELSE [st EXCEPT !.verdict = FormVerdict]
  /\ UNCHANGED <<ctx, meta, phase>>

Emit ==
  /\ phase = "scan" /\ st.verdict # "scanning"
  /\ phase' = "done"
  /\ UNCHANGED <<ctx, meta, st>>
  /\ PrintT(<<"INJ", ToJson([ctx |-> [c \in DOMAIN ctx \ {"educed", "inject"} |-> ctx[c]],
                             educed |-> [t \in AllTraits |-> t \in ctx.educed],
                             meta |-> meta, verdict |-> st.verdict,
                             errclass |-> IF st.verdict = "err" THEN ErrClass(ctx, meta) ELSE "-"])>>)

Next == Choose \/ Step \/ Emit
Spec == Init /\ [][Next]_vars

\* C17 as a liveness property of the model: under weak fairness of the scanner's steps every scan ends with a verdict
\* (no parameter loop can run forever)
FairSpec == Spec /\ WF_vars(Next)
Termination == <>(phase = "done")

\* the step machine computes the declarative verdict
MachineMeetsTable == (phase = "scan" /\ st.verdict # "scanning") => st.verdict = Verdict(ctx, meta)
\* C17 at the level of the model: the scanner always terminates with ok or err
Terminates == phase = "done" => st.verdict \in {"ok", "err"}

\* ---------------------------------------------------------------- contexts
E1 == {"Debug", "Clone", "PartialEq", "Eq", "PartialOrd", "Ord", "Hash", "Default"}
Ctx(k, pos, ed, shown, build, texpr, inj, base) ==
  [kind |-> k, pos |-> pos, educed |-> ed, shown |-> shown, build |-> build, texpr |-> texpr, inject |-> inj, base |-> base, light |-> FALSE]
\* a context in which one trait is educed alone: its handler's own scan of the variant / field attributes is the only
\* one that can refuse a foreign or unknown trait name there (next to other traits a lazy handler hides behind them);
\* only the short forms are injected
CtxL(k, pos, t, shown, base) ==
  [kind |-> k, pos |-> pos, educed |-> {t}, shown |-> shown, build |-> TRUE, texpr |-> FALSE, inject |-> {}, base |-> base, light |-> TRUE]
AloneTraits == AllTraits \ {"Into"}
ContextsAlone ==
  { CtxL("struct", "field", t, "key", "struct1_named") : t \in AloneTraits }
  \cup { CtxL("struct", "field", t, "pos", "struct1_tuple") : t \in AloneTraits }
  \cup { CtxL("enum", p, t, "key", "enum1_named1") : t \in AloneTraits, p \in {"field", "variant"} }
  \cup { CtxL("enum", p, t, "pos", "enum1_tuple1") : t \in AloneTraits, p \in {"field", "variant"} }
  \cup { CtxL("struct", "field", t, "key", "struct_named") : t \in AloneTraits \ {"Deref", "DerefMut"} }
  \cup { CtxL("enum", p, t, "pos", "enum1_tuple") : t \in AloneTraits \ {"Deref", "DerefMut"}, p \in {"field", "variant"} }

ContextsQuick ==
  { Ctx("struct", "type", E1, "key", TRUE, FALSE, E1, "struct_named"),
    Ctx("enum", "type", E1, "key", TRUE, FALSE, E1, "enum1_named"),
    Ctx("struct", "field", E1, "key", TRUE, FALSE, {}, "struct_named"),
    Ctx("struct", "field", E1, "pos", TRUE, FALSE, {}, "struct_tuple"),
    Ctx("enum", "field", E1, "key", TRUE, FALSE, {}, "enum1_named"),
    Ctx("enum", "field", E1, "pos", TRUE, FALSE, {}, "enum1_tuple"),
    Ctx("enum", "variant", E1, "key", TRUE, FALSE, {}, "enum1_named"),
    Ctx("union", "type", {"Debug", "Clone", "Copy", "PartialEq", "Eq", "Hash", "Default"}, "pos", TRUE, FALSE,
        {"Debug", "Clone", "Copy", "PartialEq", "Eq", "Hash", "Default", "PartialOrd", "Ord", "Deref", "DerefMut"}, "union1"),
    Ctx("union", "field", {"Debug", "Clone", "Copy", "PartialEq", "Eq", "Hash", "Default"}, "pos", TRUE, FALSE, {}, "union1") }

ContextsInto ==
  { Ctx("struct", "type", {"Into"}, "pos", TRUE, FALSE, {"Into"}, "into1_struct"),
    Ctx("struct", "field", {"Into"}, "pos", TRUE, FALSE, {}, "into1_struct"),
    Ctx("enum", "field", {"Into"}, "pos", TRUE, FALSE, {}, "into1_enum"),
    Ctx("enum", "variant", {"Into"}, "pos", TRUE, FALSE, {}, "into1_enum") }

ContextsMore ==
  { Ctx("struct", "type", {"Clone", "Copy"}, "key", TRUE, FALSE, {"Clone", "Copy"}, "struct_named"),
    Ctx("struct", "field", {"Clone", "Copy"}, "key", TRUE, FALSE, {}, "struct_named"),
    Ctx("enum", "field", {"Clone", "Copy"}, "pos", TRUE, FALSE, {}, "enum1_tuple"),
    Ctx("enum", "variant", {"Clone", "Copy"}, "pos", TRUE, FALSE, {}, "enum1_tuple"),
    Ctx("struct", "type", {"Copy"}, "key", TRUE, FALSE, {"Copy"}, "struct_named"),
    Ctx("struct", "field", {"Copy"}, "key", TRUE, FALSE, {}, "struct_named"),
    Ctx("struct", "type", {"Eq"}, "key", TRUE, FALSE, {"Eq"}, "struct_named"),
    Ctx("struct", "field", {"Eq"}, "key", TRUE, FALSE, {}, "struct_named"),
    Ctx("struct", "type", {"PartialEq", "PartialOrd"}, "key", TRUE, FALSE, {"PartialEq", "PartialOrd"}, "struct_named"),
    Ctx("struct", "field", {"PartialEq", "PartialOrd"}, "key", TRUE, FALSE, {}, "struct_named"),
    Ctx("enum", "field", {"PartialEq", "PartialOrd"}, "pos", TRUE, FALSE, {}, "enum1_tuple"),
    Ctx("struct", "type", {"Deref", "DerefMut"}, "pos", TRUE, FALSE, {"Deref", "DerefMut"}, "struct1_tuple"),
    Ctx("struct", "field", {"Deref", "DerefMut"}, "pos", TRUE, FALSE, {}, "struct1_tuple"),
    Ctx("enum", "variant", {"Deref", "DerefMut"}, "pos", TRUE, FALSE, {}, "enum1_tuple1"),
    Ctx("enum", "field", {"Deref", "DerefMut"}, "pos", TRUE, FALSE, {}, "enum1_tuple1"),
    Ctx("struct", "field", {"Default"}, "key", FALSE, TRUE, {}, "struct_named_texpr"),
    Ctx("enum", "field", {"Default"}, "key", FALSE, FALSE, {}, "enum2_nobuild"),
    Ctx("enum", "variant", {"Default"}, "key", TRUE, TRUE, {}, "enum1_named_texpr") }

\* a small instance for the liveness check (TLC's liveness algorithm does not scale to the full injection space)
ContextsLive == { Ctx("struct", "field", E1, "key", TRUE, FALSE, {}, "struct_named"),
                  Ctx("enum", "variant", E1, "key", TRUE, FALSE, {}, "enum1_named"),
                  Ctx("struct", "type", {"Into"}, "pos", TRUE, FALSE, {"Into"}, "into1_struct") }
ValsLive == {"ident", "int", "bool_t", "str_preds"}
ContextsQuickAll == ContextsQuick \cup ContextsInto \cup ContextsAlone

ValsQuick == {"bool_t", "bool_f", "ident", "str_ident", "str_empty", "int", "negint", "path2", "preds", "str_preds", "star", "call",
              "hexint", "bigint", "rawstr_ident", "bytestr", "str_2idents", "rawident", "macro_call", "str_ws_ident", "str_rawident"}
=============================================================================
