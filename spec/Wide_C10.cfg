SPECIFICATION Spec
CONSTANTS
  Key = "into"
  TraitList <- TraitsInto
  N = 12
  M = 0
  Vals = {0, 1}
INVARIANTS TypeOK
CHECK_DEADLOCK FALSE
