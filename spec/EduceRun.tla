------------------------------ MODULE EduceRun ------------------------------
(***************************************************************************)
(* Level R: the run-time behaviour of the impls that educe generates.      *)
(*                                                                         *)
(* For every trait method there are three definitions:                     *)
(*   *Decl  -- the declarative meaning the property states (no algorithm); *)
(*   Impl*  -- a step machine shaped like the code educe emits (one step   *)
(*             per call the generated code makes into a field's impl or a  *)
(*             custom method), used by the MC_* modules;                   *)
(*   Prop*  -- the weakest predicate over one *observed* call (operands,   *)
(*             logged field calls, result) that the property admits.       *)
(*             Verdicts on implementation traces come from Prop* only.     *)
(* TLC checks  Impl* => *Decl  and  Impl* => Prop*  on the bounded model.  *)
(*                                                                         *)
(* A logged field call is the tuple                                        *)
(*   <<fn, via, lside, lfield, lval, rside, rfield, rval, ret>>            *)
(* where side is "a"/"b" (which operand the argument was taken from),      *)
(* field is the 1-based declaration index inside the variant, and ret is   *)
(* what the probe returned.                                                *)
(***************************************************************************)
EXTENDS EduceSyntax

\* ----------------------------------------------------------------------
\* The probe semantics: what the instrumented field type and the custom
\* methods of the harness compute.  The custom methods are deliberately
\* *different* from the own impls and asymmetric, so that own/method
\* mix-ups and swapped arguments change results.
OwnEq(x, y)    == x = y
MethodEq(x, y) == ((x + 1) % 3) = y

FieldEq(via, x, y) == IF via = Method THEN MethodEq(x, y) ELSE OwnEq(x, y)

\* the well-behaved stand-in used for the law checks (an equivalence that is
\* not the identity)
ParityEq(x, y) == (x % 2) = (y % 2)
LawFieldEq(via, x, y) == IF via = Method THEN ParityEq(x, y) ELSE OwnEq(x, y)

CallFn(c)  == c[1]
CallVia(c) == c[2]
CallLS(c)  == c[3]
CallLF(c)  == c[4]
CallLV(c)  == c[5]
CallRS(c)  == c[6]
CallRF(c)  == c[7]
CallRV(c)  == c[8]
CallRet(c) == c[9]

MkCall(fn, via, ls, lf, lv, rs, rf, rv, ret) == <<fn, via, ls, lf, lv, rs, rf, rv, ret>>

\* ======================================================================
\* PartialEq (C02)
\* ======================================================================
EqCompared(c, v) == { i \in FieldIdx(c, v) : c.variants[v].fields[i].eq # Ignore }
EqVia(c, v, i) == c.variants[v].fields[i].eq

\* declarative meaning, parameterised by the field relation
EqDeclWith(c, a, b, Rel(_, _, _)) ==
  /\ a.v = b.v
  /\ \A i \in EqCompared(c, a.v) : Rel(EqVia(c, a.v, i), a.f[i], b.f[i])

EqDecl(c, a, b) == EqDeclWith(c, a, b, FieldEq)

\* --- Impl: the emitted chain.  `if ne(&self.f, &other.f) { return false }`
\* for own fields, `if !method(&self.f, &other.f) { return false }` for method
\* fields, in declaration order, skipping ignored fields, ending in `true`;
\* enums first test that `other` is the same variant.
\* run = [op, a, b, pc, calls, done, ret]; ret is meaningful once done.
EqNextField(c, v, pc) ==
  LET rest == { i \in EqCompared(c, v) : i >= pc }
  IN IF rest = {} THEN 0 ELSE CHOOSE i \in rest : \A j \in rest : i <= j

ImplEqStep(c, r) ==
  IF r.a.v # r.b.v THEN [r EXCEPT !.done = TRUE, !.ret = FALSE]
  ELSE LET i == EqNextField(c, r.a.v, r.pc) IN
    IF i = 0 THEN [r EXCEPT !.done = TRUE, !.ret = TRUE]
    ELSE LET via == EqVia(c, r.a.v, i)
             res == FieldEq(via, r.a.f[i], r.b.f[i])
             call == IF via = Method
                     THEN MkCall("eq", Method, "a", i, r.a.f[i], "b", i, r.b.f[i], res)
                     ELSE MkCall("ne", Own, "a", i, r.a.f[i], "b", i, r.b.f[i], ~res)
         IN IF res THEN [r EXCEPT !.pc = i + 1, !.calls = Append(@, call)]
                   ELSE [r EXCEPT !.pc = i + 1, !.calls = Append(@, call),
                                  !.done = TRUE, !.ret = FALSE]

\* --- Prop: what any correct implementation's observed call must satisfy.
\* Every logged call is on a compared field of the (common) variant, takes
\* the left operand's field first, goes through the method iff the field has
\* one, and returned what the probe relation says for the logged operands.
\* A `true` result needs the same variant and an "equal" call for every
\* compared field; a `false` result needs different variants or one "unequal"
\* call.  Order of calls, repetition and short-circuiting are free.
EqCallOK(c, a, b, k) ==
  /\ a.v = b.v
  /\ CallLF(k) = CallRF(k)
  /\ CallLF(k) \in EqCompared(c, a.v)
  /\ CallLS(k) = "a" /\ CallRS(k) = "b"
  /\ CallLV(k) = a.f[CallLF(k)] /\ CallRV(k) = b.f[CallRF(k)]
  /\ CallVia(k) = EqVia(c, a.v, CallLF(k))
  /\ CallFn(k) \in {"eq", "ne"}
  /\ CallVia(k) = Method => CallFn(k) = "eq"
  /\ CallRet(k) = IF CallFn(k) = "eq" THEN FieldEq(CallVia(k), CallLV(k), CallRV(k))
                                        ELSE ~FieldEq(CallVia(k), CallLV(k), CallRV(k))

\* does call k say "field equal"?
EqCallSaysEqual(k) == IF CallFn(k) = "eq" THEN CallRet(k) ELSE ~CallRet(k)

PropEq(c, a, b, calls, ret) ==
  /\ \A j \in DOMAIN calls : EqCallOK(c, a, b, calls[j])
  /\ IF ret
     THEN /\ a.v = b.v
          /\ \A i \in EqCompared(c, a.v) :
               \E j \in DOMAIN calls : CallLF(calls[j]) = i /\ EqCallSaysEqual(calls[j])
     ELSE \/ a.v # b.v
          \/ \E j \in DOMAIN calls : ~EqCallSaysEqual(calls[j])

\* `a != b` must be the negation of `a == b`: an observed `ne` call is judged
\* as an `eq` call with the negated result.
PropNe(c, a, b, calls, ret) == PropEq(c, a, b, calls, ~ret)


\* ======================================================================
\* PartialOrd / Ord (C03, C04)
\* ======================================================================
\* Orderings are the strings "Less" "Equal" "Greater"; partial_cmp may also
\* yield "None".
IntCmp(x, y) == IF x < y THEN "Less" ELSE IF x > y THEN "Greater" ELSE "Equal"
Reverse(o) == IF o = "Less" THEN "Greater" ELSE IF o = "Greater" THEN "Less" ELSE o

\* probe semantics: own order = integer order (NaN incomparable under
\* partial_cmp only); custom methods = the reversed order
OwnCmp(x, y)     == IntCmp(x, y)
OwnPCmp(x, y)    == IF x = NaN \/ y = NaN THEN "None" ELSE IntCmp(x, y)
MethodCmp(x, y)  == IntCmp(y, x)
MethodPCmp(x, y) == IF x = NaN \/ y = NaN THEN "None" ELSE IntCmp(y, x)

\* result of the field comparison function `fn` reached through `via`
FieldCmpBy(fn, via, x, y) ==
  IF fn = "cmp" THEN (IF via = Method THEN MethodCmp(x, y) ELSE OwnCmp(x, y))
                ELSE (IF via = Method THEN MethodPCmp(x, y) ELSE OwnPCmp(x, y))

OrdCompared(c, v) == { i \in FieldIdx(c, v) : c.variants[v].fields[i].ord # Ignore }
OrdVia(c, v, i) == c.variants[v].fields[i].ord
EffRank(c, v, i) ==
  LET r == c.variants[v].fields[i].rank IN IF r = NoRank THEN MinRank + (i - 1) ELSE r

\* ranks must be unique among the compared fields of one variant (C13)
RanksUnique(c) ==
  \A v \in 1..NVariants(c) : \A i, j \in OrdCompared(c, v) :
     i # j => EffRank(c, v, i) # EffRank(c, v, j)

\* the compared fields of variant v in ascending effective rank
RECURSIVE OrdOrderOf(_, _, _)
OrdOrderOf(c, v, S) ==
  IF S = {} THEN <<>>
  ELSE LET m == CHOOSE i \in S : \A j \in S : EffRank(c, v, i) <= EffRank(c, v, j)
       IN <<m>> \o OrdOrderOf(c, v, S \ {m})
OrdOrder(c, v) == OrdOrderOf(c, v, OrdCompared(c, v))

\* discriminants: the explicit literal, otherwise previous + 1
RECURSIVE Disc(_, _)
Disc(c, v) ==
  IF c.variants[v].disc # NoDisc THEN c.variants[v].disc
  ELSE IF v = 1 THEN 0 ELSE Disc(c, v - 1) + 1

\* which field-comparison function an impl of operation `op` uses for its
\* fields: the Ord impl uses cmp; a stand-alone PartialOrd impl uses
\* partial_cmp; when both are educed partial_cmp is Some(cmp).
OrdFn(c, op) == IF HasTrait(c, "Ord") THEN "cmp" ELSE "partial_cmp"

\* a field of the zero-sized type `()` has a single value: always Equal
FieldOrd(c, fn, v, i, x, y) ==
  IF c.variants[v].fields[i].ty = "unit" THEN "Equal"
  ELSE FieldCmpBy(fn, OrdVia(c, v, i), x, y)

\* --- declarative meaning: lexicographic over OrdOrder; first non-Equal wins
RECURSIVE LexFrom(_, _, _, _, _)
LexFrom(c, fn, a, b, order) ==
  IF order = <<>> THEN "Equal"
  ELSE LET i == Head(order)
           r == FieldOrd(c, fn, a.v, i, a.f[i], b.f[i])
       IN IF r = "Equal" THEN LexFrom(c, fn, a, b, Tail(order)) ELSE r

CmpDecl(c, op, a, b) ==
  IF a.v # b.v THEN IntCmp(Disc(c, a.v), Disc(c, b.v))
  ELSE LexFrom(c, OrdFn(c, op), a, b, OrdOrder(c, a.v))

\* --- Impl: discriminant comparison first; then one `match cmp(..)` per
\* compared field in ascending rank, returning on the first non-Equal.
\* run.pc is the position in OrdOrder.
ImplCmpStep(c, r) ==
  IF r.a.v # r.b.v
  THEN [r EXCEPT !.done = TRUE, !.ret = IntCmp(Disc(c, r.a.v), Disc(c, r.b.v))]
  ELSE LET order == OrdOrder(c, r.a.v) IN
    IF r.pc > Len(order) THEN [r EXCEPT !.done = TRUE, !.ret = "Equal"]
    ELSE LET i == order[r.pc]
             fn == OrdFn(c, r.op)
             via == OrdVia(c, r.a.v, i)
             res == FieldOrd(c, fn, r.a.v, i, r.a.f[i], r.b.f[i])
             call == MkCall(fn, via, "a", i, r.a.f[i], "b", i, r.b.f[i], res)
         IN IF res = "Equal"
            THEN [r EXCEPT !.pc = @ + 1, !.calls = Append(@, call)]
            ELSE [r EXCEPT !.pc = @ + 1, !.calls = Append(@, call), !.done = TRUE, !.ret = res]

\* --- Prop: every logged call is on a compared field of the common variant,
\* left operand first, through the method iff the field has one (and then
\* with the operation's own comparison function), and returned what the
\* probe semantics say.  The result must be *justified* along the rank
\* order: every field before the decisive one has a logged Equal call and the
\* decisive one a logged call with the result; or all compared fields have an
\* Equal call and the result is Equal.  Extra calls are tolerated.  Operands of
\* different variants: the discriminant order, and no field calls at all.
CmpCallOK(c, op, a, b, k) ==
  /\ a.v = b.v
  /\ CallLF(k) = CallRF(k)
  /\ CallLF(k) \in OrdCompared(c, a.v)
  /\ CallLS(k) = "a" /\ CallRS(k) = "b"
  /\ CallLV(k) = a.f[CallLF(k)] /\ CallRV(k) = b.f[CallRF(k)]
  /\ CallVia(k) = OrdVia(c, a.v, CallLF(k))
  /\ CallFn(k) \in {"cmp", "partial_cmp"}
  /\ CallVia(k) = Method => CallFn(k) = OrdFn(c, op)
  /\ CallRet(k) = FieldCmpBy(CallFn(k), CallVia(k), CallLV(k), CallRV(k))

HasCall(calls, i, res) == \E j \in DOMAIN calls : CallLF(calls[j]) = i /\ CallRet(calls[j]) = res

Justified(c, a, calls, ret) ==
  LET order == OrdOrder(c, a.v) IN
    \/ /\ ret = "Equal"
       /\ \A p \in DOMAIN order : HasCall(calls, order[p], "Equal")
    \/ /\ ret # "Equal"
       /\ \E p \in DOMAIN order :
            /\ HasCall(calls, order[p], ret)
            /\ \A q \in 1..(p - 1) : HasCall(calls, order[q], "Equal")

PropCmp(c, op, a, b, calls, ret) ==
  IF a.v # b.v
  THEN calls = <<>> /\ ret = IntCmp(Disc(c, a.v), Disc(c, b.v))
  ELSE /\ \A j \in DOMAIN calls : CmpCallOK(c, op, a, b, calls[j])
       /\ Justified(c, a, calls, ret)
       /\ (op = "cmp" \/ HasTrait(c, "Ord")) => ret # "None"


\* ======================================================================
\* Hash (C05)
\* ======================================================================
\* The data fed to the hasher is observed through a recording Hasher as a
\* sequence of strings "kind:value", one per write call.  Probe semantics:
\* the own Hash of a probe with value x writes a tag and x; the custom method
\* writes another tag and x + 100.  Both are self-delimiting.
OwnFeed(x)    == <<"u8:160", "i8:" \o ToString(x)>>
MethodFeed(x) == <<"u8:176", "i8:" \o ToString(x + 100)>>
FieldFeed(via, x) == IF via = Method THEN MethodFeed(x) ELSE OwnFeed(x)

HashFed(c, v) == { i \in FieldIdx(c, v) : c.variants[v].fields[i].hash # Ignore }
HashVia(c, v, i) == c.variants[v].fields[i].hash
HashOrder(c, v) == SortedSeq(HashFed(c, v))           \* declaration order

\* what educe writes itself before the fields: the 0-based variant index as a
\* usize for enums, nothing for structs.  (Impl-level detail; the verdict
\* predicate does not depend on it.)
ImplPrefix(c, v) == IF c.kind = "enum" THEN <<"usize:" \o ToString(v - 1)>> ELSE <<>>

RECURSIVE FieldFeeds(_, _, _)
FieldFeeds(c, a, order) ==
  IF order = <<>> THEN <<>>
  ELSE FieldFeed(HashVia(c, a.v, Head(order)), a.f[Head(order)]) \o FieldFeeds(c, a, Tail(order))

ImplHashFeed(c, a) == ImplPrefix(c, a.v) \o FieldFeeds(c, a, HashOrder(c, a.v))

\* the part of a value the hash may depend on
HashKey(c, a) == <<a.v, [i \in HashFed(c, a.v) |-> a.f[i]]>>

\* --- Impl machine: first step writes the prefix, then one step per fed
\* field in declaration order.  run = [a, pc, started, feed, calls, done]
ImplHashStep(c, r) ==
  IF ~r.started THEN [r EXCEPT !.started = TRUE, !.feed = ImplPrefix(c, r.a.v)]
  ELSE LET order == HashOrder(c, r.a.v) IN
    IF r.pc > Len(order) THEN [r EXCEPT !.done = TRUE]
    ELSE LET i == order[r.pc]
             via == HashVia(c, r.a.v, i)
         IN [r EXCEPT !.pc = @ + 1,
                      !.feed = @ \o FieldFeed(via, r.a.f[i]),
                      !.calls = Append(@, <<"hash", via, "a", i, r.a.f[i], 0>>)]

\* --- Prop for one observation (one value hashed once): the field calls are
\* exactly the fed fields, each once, in declaration order, through the method
\* iff the field has one, on the right operand; and the feed contains the
\* field feeds as a subsequence in that order.
HashCallsOK(c, a, calls) ==
  LET order == HashOrder(c, a.v) IN
    /\ Len(calls) = Len(order)
    /\ \A p \in DOMAIN order :
         LET k == calls[p] IN
           /\ k[1] = "hash"
           /\ k[2] = HashVia(c, a.v, order[p])
           /\ k[3] = "a"
           /\ k[4] = order[p]
           /\ k[5] = a.f[order[p]]

RECURSIVE IsSubseqFrom(_, _, _, _)
IsSubseqFrom(small, big, i, j) ==
  IF i > Len(small) THEN TRUE
  ELSE IF j > Len(big) THEN FALSE
  ELSE IF small[i] = big[j] THEN IsSubseqFrom(small, big, i + 1, j + 1)
  ELSE IsSubseqFrom(small, big, i, j + 1)
IsSubseq(small, big) == IsSubseqFrom(small, big, 1, 1)

PropHashOne(c, a, calls, feed) ==
  /\ HashCallsOK(c, a, calls)
  /\ IsSubseq(FieldFeeds(c, a, HashOrder(c, a.v)), feed)

\* --- Prop for a whole type: obs is the sequence of observations of all
\* values of the type, eqs the observed == results as <<i, j, bool>>.
\* Agreeing on (variant, fed fields) <=> identical feed; and a == b implies
\* identical feed (the corpus educes PartialEq with the same ignore choices).
PropHashAll(c, obs, eqs) ==
  /\ \A p \in DOMAIN obs : PropHashOne(c, obs[p].a, obs[p].calls, obs[p].feed)
  /\ \A p \in DOMAIN obs : \A q \in DOMAIN obs :
        (HashKey(c, obs[p].a) = HashKey(c, obs[q].a)) <=> (obs[p].feed = obs[q].feed)
  /\ \A k \in DOMAIN eqs : eqs[k][3] => obs[eqs[k][1]].feed = obs[eqs[k][2]].feed

\* Result-level verdict for payload types that cannot log (bool, (), Option,
\* NonZero, ...; C04): every observed result -- the same comparison is repeated
\* with the operands placed next to different neighbour bytes -- must be the
\* declarative one.
PropCmpResults(c, op, a, b, rets) ==
  /\ Len(rets) > 0
  /\ \A k \in DOMAIN rets : rets[k] = CmpDecl(c, op, a, b)

=============================================================================
