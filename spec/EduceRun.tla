------------------------------ MODULE EduceRun ------------------------------
(***************************************************************************)
(* Level R: the run-time behaviour of the impls that educe generates.      *)
(*                                                                         *)
(* For every trait method there are three definitions:                     *)
(*   *Decl  -- the declarative meaning the property states (no algorithm); *)
(*   Impl*  -- a step machine shaped like the code educe emits (one step   *)
(*             per call the generated code makes into a field's impl or a  *)
(*             custom method), used by the MC_* modules;                   *)
(*   Prop*  -- the weakest predicate over one *observed* call (operands,   *)
(*             logged field calls, result) that the property admits.       *)
(*             Verdicts on implementation traces come from Prop* only.     *)
(* TLC checks  Impl* => *Decl  and  Impl* => Prop*  on the bounded model.  *)
(*                                                                         *)
(* A logged field call is the tuple                                        *)
(*   <<fn, via, lside, lfield, lval, rside, rfield, rval, ret>>            *)
(* where side is "a"/"b" (which operand the argument was taken from),      *)
(* field is the 1-based declaration index inside the variant, and ret is   *)
(* what the probe returned.                                                *)
(***************************************************************************)
EXTENDS EduceSyntax

\* ----------------------------------------------------------------------
\* The probe semantics: what the instrumented field type and the custom
\* methods of the harness compute.  The custom methods are deliberately
\* *different* from the own impls and asymmetric, so that own/method
\* mix-ups and swapped arguments change results.
\* (the own == is that of a float: the value NaN equals nothing, itself included)
OwnEq(x, y)    == x = y /\ x # NaN
MethodEq(x, y) == ((x + 1) % 3) = y

FieldEq(via, x, y) == IF via = Method THEN MethodEq(x, y) ELSE OwnEq(x, y)

\* the well-behaved stand-in used for the law checks (an equivalence that is
\* not the identity)
ParityEq(x, y) == (x % 2) = (y % 2)
LawFieldEq(via, x, y) == IF via = Method THEN ParityEq(x, y) ELSE OwnEq(x, y)

CallFn(c)  == c[1]
CallVia(c) == c[2]
CallLS(c)  == c[3]
CallLF(c)  == c[4]
CallLV(c)  == c[5]
CallRS(c)  == c[6]
CallRF(c)  == c[7]
CallRV(c)  == c[8]
CallRet(c) == c[9]

MkCall(fn, via, ls, lf, lv, rs, rf, rv, ret) == <<fn, via, ls, lf, lv, rs, rf, rv, ret>>

\* ======================================================================
\* PartialEq (C02)
\* ======================================================================
EqCompared(c, v) == { i \in FieldIdx(c, v) : c.variants[v].fields[i].eq # Ignore }
EqVia(c, v, i) == c.variants[v].fields[i].eq

\* declarative meaning, parameterised by the field relation
EqDeclWith(c, a, b, Rel(_, _, _)) ==
  /\ a.v = b.v
  /\ \A i \in EqCompared(c, a.v) : Rel(EqVia(c, a.v, i), a.f[i], b.f[i])

EqDecl(c, a, b) == EqDeclWith(c, a, b, FieldEq)

\* --- Impl: the emitted chain.  `if ne(&self.f, &other.f) { return false }`
\* for own fields, `if !method(&self.f, &other.f) { return false }` for method
\* fields, in declaration order, skipping ignored fields, ending in `true`;
\* enums first test that `other` is the same variant.
\* run = [op, a, b, pc, calls, done, ret]; ret is meaningful once done.
EqNextField(c, v, pc) ==
  LET rest == { i \in EqCompared(c, v) : i >= pc }
  IN IF rest = {} THEN 0 ELSE CHOOSE i \in rest : \A j \in rest : i <= j

ImplEqStep(c, r) ==
  IF r.a.v # r.b.v THEN [r EXCEPT !.done = TRUE, !.ret = FALSE]
  ELSE LET i == EqNextField(c, r.a.v, r.pc) IN
    IF i = 0 THEN [r EXCEPT !.done = TRUE, !.ret = TRUE]
    ELSE LET via == EqVia(c, r.a.v, i)
             res == FieldEq(via, r.a.f[i], r.b.f[i])
             call == IF via = Method
                     THEN MkCall("eq", Method, "a", i, r.a.f[i], "b", i, r.b.f[i], res)
                     ELSE MkCall("ne", Own, "a", i, r.a.f[i], "b", i, r.b.f[i], ~res)
         IN IF res THEN [r EXCEPT !.pc = i + 1, !.calls = Append(@, call)]
                   ELSE [r EXCEPT !.pc = i + 1, !.calls = Append(@, call),
                                  !.done = TRUE, !.ret = FALSE]

\* --- Prop: what any correct implementation's observed call must satisfy.
\* Every logged call is on a compared field of the (common) variant, takes
\* the left operand's field first, goes through the method iff the field has
\* one, and returned what the probe relation says for the logged operands.
\* A `true` result needs the same variant and an "equal" call for every
\* compared field; a `false` result needs different variants or one "unequal"
\* call.  Order of calls, repetition and short-circuiting are free.
\* (rs: the side the right operand was built as -- "b", or "a" when a value is compared with itself)
EqCallOKS(c, a, b, k, rs) ==
  /\ a.v = b.v
  /\ CallLF(k) = CallRF(k)
  /\ CallLF(k) \in EqCompared(c, a.v)
  /\ CallLS(k) = "a" /\ CallRS(k) = rs
  /\ CallLV(k) = a.f[CallLF(k)] /\ CallRV(k) = b.f[CallRF(k)]
  /\ CallVia(k) = EqVia(c, a.v, CallLF(k))
  /\ CallFn(k) \in {"eq", "ne"}
  /\ CallVia(k) = Method => CallFn(k) = "eq"
  /\ CallRet(k) = IF CallFn(k) = "eq" THEN FieldEq(CallVia(k), CallLV(k), CallRV(k))
                                        ELSE ~FieldEq(CallVia(k), CallLV(k), CallRV(k))

\* does call k say "field equal"?
EqCallSaysEqual(k) == IF CallFn(k) = "eq" THEN CallRet(k) ELSE ~CallRet(k)

EqCallOK(c, a, b, k) == EqCallOKS(c, a, b, k, "b")
PropEqS(c, a, b, calls, ret, rs) ==
  /\ \A j \in DOMAIN calls : EqCallOKS(c, a, b, calls[j], rs)
  /\ IF ret
     THEN /\ a.v = b.v
          /\ \A i \in EqCompared(c, a.v) :
               \E j \in DOMAIN calls : CallLF(calls[j]) = i /\ EqCallSaysEqual(calls[j])
     ELSE \/ a.v # b.v
          \/ \E j \in DOMAIN calls : ~EqCallSaysEqual(calls[j])

\* `a != b` must be the negation of `a == b`: an observed `ne` call is judged
\* as an `eq` call with the negated result.
PropEq(c, a, b, calls, ret) == PropEqS(c, a, b, calls, ret, "b")
PropNe(c, a, b, calls, ret) == PropEq(c, a, b, calls, ~ret)
\* one and the same object on both sides: judged exactly like two equal-looking values -- the answer must come from the
\* fields (a field whose own == is not reflexive makes `x == x` false), never from the identity of the operands
PropEqSame(c, a, calls, ret) == PropEqS(c, a, a, calls, ret, "a")
PropNeSame(c, a, calls, ret) == PropEqS(c, a, a, calls, ~ret, "a")


\* ======================================================================
\* PartialOrd / Ord (C03, C04)
\* ======================================================================
\* Orderings are the strings "Less" "Equal" "Greater"; partial_cmp may also
\* yield "None".
IntCmp(x, y) == IF x < y THEN "Less" ELSE IF x > y THEN "Greater" ELSE "Equal"
Reverse(o) == IF o = "Less" THEN "Greater" ELSE IF o = "Greater" THEN "Less" ELSE o

\* probe semantics: own order = integer order (NaN incomparable under
\* partial_cmp only); custom methods = the reversed order
OwnCmp(x, y)     == IntCmp(x, y)
OwnPCmp(x, y)    == IF x = NaN \/ y = NaN THEN "None" ELSE IntCmp(x, y)
MethodCmp(x, y)  == IntCmp(y, x)
MethodPCmp(x, y) == IF x = NaN \/ y = NaN THEN "None" ELSE IntCmp(y, x)

\* result of the field comparison function `fn` reached through `via`
FieldCmpBy(fn, via, x, y) ==
  IF fn = "cmp" THEN (IF via = Method THEN MethodCmp(x, y) ELSE OwnCmp(x, y))
                ELSE (IF via = Method THEN MethodPCmp(x, y) ELSE OwnPCmp(x, y))

OrdCompared(c, v) == { i \in FieldIdx(c, v) : c.variants[v].fields[i].ord # Ignore }
OrdVia(c, v, i) == c.variants[v].fields[i].ord
EffRank(c, v, i) ==
  LET r == c.variants[v].fields[i].rank IN IF r = NoRank THEN MinRank + (i - 1) ELSE r

\* ranks must be unique among the compared fields of one variant (C13)
RanksUnique(c) ==
  \A v \in 1..NVariants(c) : \A i, j \in OrdCompared(c, v) :
     i # j => EffRank(c, v, i) # EffRank(c, v, j)

\* the compared fields of variant v in ascending effective rank
RECURSIVE OrdOrderOf(_, _, _)
OrdOrderOf(c, v, S) ==
  IF S = {} THEN <<>>
  ELSE LET m == CHOOSE i \in S : \A j \in S : EffRank(c, v, i) <= EffRank(c, v, j)
       IN <<m>> \o OrdOrderOf(c, v, S \ {m})
OrdOrder(c, v) == OrdOrderOf(c, v, OrdCompared(c, v))

\* discriminants: the explicit literal, otherwise previous + 1
RECURSIVE Disc(_, _)
Disc(c, v) ==
  IF c.variants[v].disc # NoDisc THEN c.variants[v].disc
  ELSE IF v = 1 THEN 0 ELSE Disc(c, v - 1) + 1

\* The integer type the ordering impls compare discriminants in: the one named in #[repr(..)] if there is one,
\* otherwise the narrowest signed type that holds every discriminant (the bounded instances stay within i32).
\* Not part of a listed property's wording, but visible in the generated code and decisive for C04: a type too
\* narrow wraps the discriminant literals silently.
ReprIntOf(r) ==
  CASE r \in {"u8", "u16", "u32", "u64", "usize", "i8", "i16", "i32", "i64", "isize"} -> r
    [] r = "C, u8" -> "u8"
    [] OTHER -> "none"
DiscTypeOf(c) ==
  IF ReprIntOf(c.opts.repr) # "none" THEN ReprIntOf(c.opts.repr)
  ELSE LET ds == { Disc(c, v) : v \in 1..NVariants(c) }
           lo == CHOOSE x \in ds : \A y \in ds : x <= y
           hi == CHOOSE x \in ds : \A y \in ds : x >= y
       IN IF NVariants(c) = 0 THEN "i8"
          ELSE IF lo >= -128 /\ hi <= 127 THEN "i8"
          ELSE IF lo >= -32768 /\ hi <= 32767 THEN "i16"
          ELSE "i32"

\* which field-comparison function an impl of operation `op` uses for its
\* fields: the Ord impl uses cmp; a stand-alone PartialOrd impl uses
\* partial_cmp; when both are educed partial_cmp is Some(cmp).
OrdFn(c, op) == IF HasTrait(c, "Ord") THEN "cmp" ELSE "partial_cmp"

\* a field of the zero-sized type `()` has a single value: always Equal
FieldOrd(c, fn, v, i, x, y) ==
  IF c.variants[v].fields[i].ty = "unit" THEN "Equal"
  ELSE FieldCmpBy(fn, OrdVia(c, v, i), x, y)

\* --- declarative meaning: lexicographic over OrdOrder; first non-Equal wins
RECURSIVE LexFrom(_, _, _, _, _)
LexFrom(c, fn, a, b, order) ==
  IF order = <<>> THEN "Equal"
  ELSE LET i == Head(order)
           r == FieldOrd(c, fn, a.v, i, a.f[i], b.f[i])
       IN IF r = "Equal" THEN LexFrom(c, fn, a, b, Tail(order)) ELSE r

CmpDecl(c, op, a, b) ==
  IF a.v # b.v THEN IntCmp(Disc(c, a.v), Disc(c, b.v))
  ELSE LexFrom(c, OrdFn(c, op), a, b, OrdOrder(c, a.v))

\* --- Impl: discriminant comparison first; then one `match cmp(..)` per
\* compared field in ascending rank, returning on the first non-Equal.
\* run.pc is the position in OrdOrder.
ImplCmpStep(c, r) ==
  IF r.a.v # r.b.v
  THEN [r EXCEPT !.done = TRUE, !.ret = IntCmp(Disc(c, r.a.v), Disc(c, r.b.v))]
  ELSE LET order == OrdOrder(c, r.a.v) IN
    IF r.pc > Len(order) THEN [r EXCEPT !.done = TRUE, !.ret = "Equal"]
    ELSE LET i == order[r.pc]
             fn == OrdFn(c, r.op)
             via == OrdVia(c, r.a.v, i)
             res == FieldOrd(c, fn, r.a.v, i, r.a.f[i], r.b.f[i])
             call == MkCall(fn, via, "a", i, r.a.f[i], "b", i, r.b.f[i], res)
         IN IF res = "Equal"
            THEN [r EXCEPT !.pc = @ + 1, !.calls = Append(@, call)]
            ELSE [r EXCEPT !.pc = @ + 1, !.calls = Append(@, call), !.done = TRUE, !.ret = res]

\* --- Prop: every logged call is on a compared field of the common variant,
\* left operand first, through the method iff the field has one (and then
\* with the operation's own comparison function), and returned what the
\* probe semantics say.  The result must be *justified* along the rank
\* order: every field before the decisive one has a logged Equal call and the
\* decisive one a logged call with the result; or all compared fields have an
\* Equal call and the result is Equal.  Extra calls are tolerated.  Operands of
\* different variants: the discriminant order, and no field calls at all.
CmpCallOKS(c, op, a, b, k, rs) ==
  /\ a.v = b.v
  /\ CallLF(k) = CallRF(k)
  /\ CallLF(k) \in OrdCompared(c, a.v)
  /\ CallLS(k) = "a" /\ CallRS(k) = rs
  /\ CallLV(k) = a.f[CallLF(k)] /\ CallRV(k) = b.f[CallRF(k)]
  /\ CallVia(k) = OrdVia(c, a.v, CallLF(k))
  /\ CallFn(k) \in {"cmp", "partial_cmp"}
  /\ CallVia(k) = Method => CallFn(k) = OrdFn(c, op)
  /\ CallRet(k) = FieldCmpBy(CallFn(k), CallVia(k), CallLV(k), CallRV(k))

HasCall(calls, i, res) == \E j \in DOMAIN calls : CallLF(calls[j]) = i /\ CallRet(calls[j]) = res

Justified(c, a, calls, ret) ==
  LET order == OrdOrder(c, a.v) IN
    \/ /\ ret = "Equal"
       /\ \A p \in DOMAIN order : HasCall(calls, order[p], "Equal")
    \/ /\ ret # "Equal"
       /\ \E p \in DOMAIN order :
            /\ HasCall(calls, order[p], ret)
            /\ \A q \in 1..(p - 1) : HasCall(calls, order[q], "Equal")

CmpCallOK(c, op, a, b, k) == CmpCallOKS(c, op, a, b, k, "b")
PropCmpS(c, op, a, b, calls, ret, rs) ==
  IF a.v # b.v
  THEN calls = <<>> /\ ret = IntCmp(Disc(c, a.v), Disc(c, b.v))
  ELSE /\ \A j \in DOMAIN calls : CmpCallOKS(c, op, a, b, calls[j], rs)
       /\ Justified(c, a, calls, ret)
       /\ (op = "cmp" \/ HasTrait(c, "Ord")) => ret # "None"
PropCmp(c, op, a, b, calls, ret) == PropCmpS(c, op, a, b, calls, ret, "b")
\* a value compared with itself (same object): as for two equal-looking values
PropCmpSame(c, op, a, calls, ret) == PropCmpS(c, op, a, a, calls, ret, "a")


\* ======================================================================
\* Hash (C05)
\* ======================================================================
\* The data fed to the hasher is observed through a recording Hasher as a
\* sequence of strings "kind:value", one per write call.  Probe semantics:
\* the own Hash of a probe with value x writes a tag and x; the custom method
\* writes another tag and x + 100.  Both are self-delimiting.
OwnFeed(x)    == <<"u8:160", "i8:" \o ToString(x)>>
MethodFeed(x) == <<"u8:176", "i8:" \o ToString(x + 100)>>
FieldFeed(via, x) == IF via = Method THEN MethodFeed(x) ELSE OwnFeed(x)

HashFed(c, v) == { i \in FieldIdx(c, v) : c.variants[v].fields[i].hash # Ignore }
HashVia(c, v, i) == c.variants[v].fields[i].hash
HashOrder(c, v) == SortedSeq(HashFed(c, v))           \* declaration order

\* what educe writes itself before the fields: the 0-based variant index as a
\* usize for enums, nothing for structs.  (Impl-level detail; the verdict
\* predicate does not depend on it.)
ImplPrefix(c, v) == IF c.kind = "enum" THEN <<"w8:" \o ToString(v - 1)>> ELSE <<>>    \* ("w8": any 8-byte integer write)

RECURSIVE FieldFeeds(_, _, _)
FieldFeeds(c, a, order) ==
  IF order = <<>> THEN <<>>
  ELSE FieldFeed(HashVia(c, a.v, Head(order)), a.f[Head(order)]) \o FieldFeeds(c, a, Tail(order))

ImplHashFeed(c, a) == ImplPrefix(c, a.v) \o FieldFeeds(c, a, HashOrder(c, a.v))

\* the part of a value the hash may depend on
HashKey(c, a) == <<a.v, [i \in HashFed(c, a.v) |-> a.f[i]]>>

\* --- Impl machine: first step writes the prefix, then one step per fed
\* field in declaration order.  run = [a, pc, started, feed, calls, done]
ImplHashStep(c, r) ==
  IF ~r.started THEN [r EXCEPT !.started = TRUE, !.feed = ImplPrefix(c, r.a.v)]
  ELSE LET order == HashOrder(c, r.a.v) IN
    IF r.pc > Len(order) THEN [r EXCEPT !.done = TRUE]
    ELSE LET i == order[r.pc]
             via == HashVia(c, r.a.v, i)
         IN [r EXCEPT !.pc = @ + 1,
                      !.feed = @ \o FieldFeed(via, r.a.f[i]),
                      !.calls = Append(@, <<"hash", via, "a", i, r.a.f[i], 0>>)]

\* --- Prop for one observation (one value hashed once): the field calls are
\* exactly the fed fields, each once, in declaration order, through the method
\* iff the field has one, on the right operand; and the feed contains the
\* field feeds as a subsequence in that order.
HashCallsOK(c, a, calls) ==
  LET order == HashOrder(c, a.v) IN
    /\ Len(calls) = Len(order)
    /\ \A p \in DOMAIN order :
         LET k == calls[p] IN
           /\ k[1] = "hash"
           /\ k[2] = HashVia(c, a.v, order[p])
           /\ k[3] = "a"
           /\ k[4] = order[p]
           /\ k[5] = a.f[order[p]]

RECURSIVE IsSubseqFrom(_, _, _, _)
IsSubseqFrom(small, big, i, j) ==
  IF i > Len(small) THEN TRUE
  ELSE IF j > Len(big) THEN FALSE
  ELSE IF small[i] = big[j] THEN IsSubseqFrom(small, big, i + 1, j + 1)
  ELSE IsSubseqFrom(small, big, i, j + 1)
IsSubseq(small, big) == IsSubseqFrom(small, big, 1, 1)

PropHashOne(c, a, calls, feed) ==
  /\ HashCallsOK(c, a, calls)
  /\ IsSubseq(FieldFeeds(c, a, HashOrder(c, a.v)), feed)

\* --- Prop for a whole type: obs is the sequence of observations of all
\* values of the type, eqs the observed == results as <<i, j, bool>>.
\* Agreeing on (variant, fed fields) <=> identical feed; and a == b implies
\* identical feed (the corpus educes PartialEq with the same ignore choices).
PropHashAll(c, obs, eqs) ==
  /\ \A p \in DOMAIN obs : PropHashOne(c, obs[p].a, obs[p].calls, obs[p].feed)
  /\ \A p \in DOMAIN obs : \A q \in DOMAIN obs :
        (HashKey(c, obs[p].a) = HashKey(c, obs[q].a)) <=> (obs[p].feed = obs[q].feed)
  /\ \A k \in DOMAIN eqs : eqs[k][3] => obs[eqs[k][1]].feed = obs[eqs[k][2]].feed

\* Result-level verdict for payload types that cannot log (bool, (), Option,
\* NonZero, ...; C04): every observed result -- the same comparison is repeated
\* with the operands placed next to different neighbour bytes -- must be the
\* declarative one.
PropCmpResults(c, op, a, b, rets) ==
  /\ Len(rets) > 0
  /\ \A k \in DOMAIN rets : rets[k] = CmpDecl(c, op, a, b)


\* ======================================================================
\* Clone / Copy (C07)
\* ======================================================================
\* A result value is observed as its fingerprint <<variant, <<field
\* fingerprints>>>>; a field fingerprint is <<side, field, value, generation>>:
\* which operand and field the probe originally came from, its abstract value,
\* and how it was produced.
GOrig == 0        \* never touched: a bitwise copy of the original probe
GClone == 1       \* produced by the field type's Clone::clone
GCloneFrom == 2   \* overwritten by the field type's Clone::clone_from
GMethod == 3      \* produced by the custom clone method

CloneVia(c, v, i) == c.variants[v].fields[i].clone
HasCloneMethod(c) ==
  \E v \in 1..NVariants(c) : \E i \in FieldIdx(c, v) : CloneVia(c, v, i) = Method
\* "When Copy is educed as well ... unless a custom clone method is in use
\* clone returns a bitwise copy."
Bitwise(c) == HasTrait(c, "Copy") /\ ~HasCloneMethod(c)

\* A field declared as a shared reference (`&'static P`): its own Clone copies the reference -- the referent is
\* the same probe, untouched (generation GOrig), and the probe's Clone is not called.  A custom method still rules.
RefOwn(c, v, i) == c.variants[v].fields[i].ty = "ref" /\ CloneVia(c, v, i) # Method

\* generations admissible for field i of the result of `op`
CloneGens(c, v, i, op) ==
  IF Bitwise(c) THEN {GOrig}
  ELSE IF CloneVia(c, v, i) = Method THEN {GMethod}
  ELSE IF RefOwn(c, v, i) THEN {GOrig}
  ELSE IF op = "clone" THEN {GClone}
  ELSE {GClone, GCloneFrom}       \* clone_from may reuse the storage or replace it

\* --- Prop for x.clone(): same variant; every field produced from the
\* corresponding field of x, exactly once, by the method or the own Clone; a
\* bitwise plan makes no call at all.
CloneCallFor(c, a, i) == <<"clone", CloneVia(c, a.v, i), "a", i, a.f[i], 0>>
PropClone(c, a, calls, res) ==
  /\ res[1] = a.v
  /\ Len(res[2]) = NFields(c, a.v)
  /\ \A i \in FieldIdx(c, a.v) :
        /\ res[2][i][1] = "a" /\ res[2][i][2] = i /\ res[2][i][3] = a.f[i]
        /\ res[2][i][4] \in CloneGens(c, a.v, i, "clone")
  /\ IF Bitwise(c) THEN calls = <<>>
     ELSE /\ Len(calls) = Cardinality({ i \in FieldIdx(c, a.v) : ~RefOwn(c, a.v, i) })
          /\ \A i \in FieldIdx(c, a.v) : ~RefOwn(c, a.v, i) => \E j \in DOMAIN calls : calls[j] = CloneCallFor(c, a, i)

\* --- Prop for a.clone_from(&b): judged on the final state only -- a is then
\* indistinguishable from b.clone() (any prior a, same or different variant).
PropCloneFrom(c, a, b, res) ==
  /\ res[1] = b.v
  /\ Len(res[2]) = NFields(c, b.v)
  /\ \A i \in FieldIdx(c, b.v) :
        /\ res[2][i][1] = "b" /\ res[2][i][2] = i /\ res[2][i][3] = b.f[i]
        /\ res[2][i][4] \in CloneGens(c, b.v, i, "clone_from")

\* --- Impl machines (one step per field).  run = [op, a, b, pc, calls, res, done];
\* res is the list of field fingerprints built so far.
ImplCloneField(c, src, side, i) ==
  <<side, i, src.f[i], IF CloneVia(c, src.v, i) = Method THEN GMethod ELSE IF RefOwn(c, src.v, i) THEN GOrig ELSE GClone>>

ImplCloneStep(c, r) ==
  IF Bitwise(c)
  THEN [r EXCEPT !.done = TRUE, !.resv = r.a.v,
                 !.res = [i \in FieldIdx(c, r.a.v) |-> <<"a", i, r.a.f[i], GOrig>>]]
  ELSE IF r.pc > NFields(c, r.a.v) THEN [r EXCEPT !.done = TRUE, !.resv = r.a.v]
  ELSE [r EXCEPT !.pc = @ + 1,
                 !.res = Append(@, ImplCloneField(c, r.a, "a", r.pc)),
                 !.calls = IF RefOwn(c, r.a.v, r.pc) THEN @ ELSE Append(@, CloneCallFor(c, r.a, r.pc))]

\* clone_from: same variant => field-wise clone_from / method assignment;
\* otherwise `*self = source.clone()`.  With the bitwise plan the trait's
\* default clone_from (`*self = source.clone()`) is used.
ImplCloneFromStep(c, r) ==
  IF Bitwise(c)
  THEN [r EXCEPT !.done = TRUE, !.resv = r.b.v,
                 !.res = [i \in FieldIdx(c, r.b.v) |-> <<"b", i, r.b.f[i], GOrig>>]]
  ELSE IF r.pc > NFields(c, r.b.v) THEN [r EXCEPT !.done = TRUE, !.resv = r.b.v]
  ELSE LET i == r.pc
           g == IF CloneVia(c, r.b.v, i) = Method THEN GMethod
                ELSE IF RefOwn(c, r.b.v, i) THEN GOrig
                ELSE IF r.a.v = r.b.v THEN GCloneFrom ELSE GClone
       IN [r EXCEPT !.pc = @ + 1, !.res = Append(@, <<"b", i, r.b.f[i], g>>)]


\* ======================================================================
\* Debug (C06)
\* ======================================================================
\* The effective shape of a value: an effective name (or none), a style, and
\* the shown fields with their keys; then the text core::fmt's builders
\* produce for it.  Newlines are written "|" here and in the traces.
\* Probe semantics: the own Debug of a probe with value x prints "p<x>", the
\* custom method prints "m<x>" (single-line, so the pretty printer does not
\* re-indent them); in alternate mode they print "P<x>" / "M<x>".
NoName == "<none>"

\* names of the rendering (facts about the Rust source, supplied with each
\* record): nm.type = the type's identifier, nm.fields = the identifiers of the
\* fields of the value's variant ("" for tuple fields)
TypeCustom == "Renamed"
VariantIdent(v) == "V" \o ToString(v)
VariantCustom(v) == "RenamedV" \o ToString(v)
KeyCustom(i) == "k" \o ToString(i)

DbgShown(c, v) == { i \in FieldIdx(c, v) : c.variants[v].fields[i].dbg # Ignore }
DbgVia(c, v, i) == c.variants[v].fields[i].dbg

EffName(c, v, nm) ==
  IF c.kind = "struct"
  THEN CASE c.opts.dname = "off" -> NoName
         [] c.opts.dname = "custom" -> TypeCustom
         [] OTHER -> nm.type
  ELSE LET en == CASE c.opts.dname = "on" -> nm.type
                   [] c.opts.dname = "custom" -> TypeCustom
                   [] OTHER -> NoName                      \* enums hide their own name by default
           vn == CASE c.variants[v].dname = "off" -> NoName
                   [] c.variants[v].dname = "custom" -> VariantCustom(v)
                   [] OTHER -> VariantIdent(v)
       IN IF en # NoName THEN (IF vn # NoName THEN en \o "::" \o vn ELSE en) ELSE vn

\* struct style (keys) or tuple style (positional)
EffNamed(c, v) ==
  LET d == IF c.kind = "struct" THEN c.opts.dnf ELSE c.variants[v].dnf IN
    CASE d = "true" -> TRUE
      [] d = "false" -> FALSE
      [] OTHER -> c.variants[v].style # "tuple"

EffKey(c, v, i, nm) ==
  IF c.variants[v].fields[i].key # "" THEN KeyCustom(i)
  ELSE IF c.variants[v].style = "tuple" THEN "_" \o ToString(i - 1)
  ELSE nm.fields[i]

\* what the macro must refuse (C13) rather than print: nothing to print at all
DebugPrintable(c) ==
  \A v \in 1..NVariants(c) :
     /\ (DbgShown(c, v) = {}) => EffName(c, v, [type |-> "T", fields |-> <<>>]) # NoName
     /\ \A i \in FieldIdx(c, v) : c.variants[v].fields[i].key # "" => (EffNamed(c, v) /\ i \in DbgShown(c, v))

\* the probes print in lower case in compact mode and in upper case when the
\* formatter's alternate flag reaches them (so a field formatted outside the
\* builder, e.g. pre-rendered with "{:?}", is noticed)
ValText(via, x, alt) ==
  (IF via = Method THEN (IF alt THEN "M" ELSE "m") ELSE (IF alt THEN "P" ELSE "p")) \o ToString(x)

RECURSIVE JoinWith(_, _)
JoinWith(items, sep) ==
  IF items = <<>> THEN ""
  ELSE IF Len(items) = 1 THEN items[1]
  ELSE items[1] \o sep \o JoinWith(Tail(items), sep)

RECURSIVE Lines(_)
Lines(items) == IF items = <<>> THEN "" ELSE "    " \o Head(items) \o ",|" \o Lines(Tail(items))

\* the text, compact (alt = FALSE) or pretty (alt = TRUE)
RenderDebug(c, a, nm, alt) ==
  LET v == a.v
      name == EffName(c, v, nm)
      shown == SortedSeq(DbgShown(c, v))
      vals == [p \in DOMAIN shown |-> ValText(DbgVia(c, v, shown[p]), a.f[shown[p]], alt)]
      kvs == [p \in DOMAIN shown |-> EffKey(c, v, shown[p], nm) \o ": " \o vals[p]]
      shownName == IF name = NoName THEN "" ELSE name
  IN IF c.variants[v].style = "unit" /\ c.kind = "enum" THEN name
     ELSE IF EffNamed(c, v)
     THEN IF name # NoName
          THEN \* debug_struct
               IF shown = <<>> THEN name
               ELSE IF alt THEN name \o " {|" \o Lines(kvs) \o "}"
                           ELSE name \o " { " \o JoinWith(kvs, ", ") \o " }"
          ELSE \* debug_map with raw keys
               IF alt THEN (IF shown = <<>> THEN "{}" ELSE "{|" \o Lines(kvs) \o "}")
                      ELSE "{" \o JoinWith(kvs, ", ") \o "}"
     ELSE \* debug_tuple
          IF shown = <<>> THEN shownName
          ELSE IF alt THEN shownName \o "(|" \o Lines(vals) \o ")"
          ELSE shownName \o "(" \o JoinWith(vals, ", ")
                         \o (IF shownName = "" /\ Len(shown) = 1 THEN ",)" ELSE ")")

\* field formatting calls: exactly the shown fields, once each, in declaration
\* order, through the method iff the field has one
DbgCallsOK(c, a, calls) ==
  LET shown == SortedSeq(DbgShown(c, a.v)) IN
    /\ Len(calls) = Len(shown)
    /\ \A p \in DOMAIN shown :
          calls[p] = <<"fmt", DbgVia(c, a.v, shown[p]), "a", shown[p], a.f[shown[p]], 0>>

HasDebugParams(c) ==
  \/ c.opts.dname # "default" \/ c.opts.dnf # "default"
  \/ \E v \in 1..NVariants(c) :
        \/ c.variants[v].dname # "default" \/ c.variants[v].dnf # "default"
        \/ \E i \in FieldIdx(c, v) : c.variants[v].fields[i].dbg # Own \/ c.variants[v].fields[i].key # ""

\* e = one observed formatting of value e.a: compact text, pretty text, the
\* calls of each, the names, and what #[derive(Debug)] prints for a twin type
PropDebug(c, e) ==
  /\ e.out = RenderDebug(c, e.a, e.nm, FALSE)
  /\ e.pretty = RenderDebug(c, e.a, e.nm, TRUE)
  /\ DbgCallsOK(c, e.a, e.calls)
  /\ DbgCallsOK(c, e.a, e.pcalls)
  /\ ~HasDebugParams(c) => (e.out = e.dout /\ e.pretty = e.dpretty)
  \* formatting flags (width, precision, fill) are the fields' business; the probes ignore them, and names, keys and
  \* punctuation are written verbatim: every flagged rendering equals the plain one
  /\ \A k \in DOMAIN e.flagged : e.flagged[k] = e.out


\* ======================================================================
\* Default (C08)
\* ======================================================================
\* Field sources (f.dflt): "none" = the field type's Default::default();
\* a literal kind "int" "str" "bool" "char" "float" = `#[educe(Default = lit)]`
\* (or expression = lit / expr(lit)); "expr" = a non-literal expression.
\* Field type classes (f.ty): "P" = probe type (not the natural type of any
\* literal, so literals reach it through Into), "nat" = the literal's natural
\* type (no conversion; plain i32 when there is no literal).
\* A result field is observed as <<origin, tag, value, generation>>.
GDefault == 4     \* produced by the field type's Default::default()
GFrom == 5        \* produced by From<literal> (i.e. through Into::into)
GExpr == 6        \* produced by evaluating the user's expression
TypeExprVal == 66 \* every field of the value built by a type-level expression

\* ("int8": an integer literal with a type suffix, `11u8` -- converted through From<u8>, not through From<i32>)
LitKinds == {"int", "int8", "str", "bool", "char", "float"}
GFrom8 == 7      \* produced by From<u8>
\* the abstract value the rendered literal / expression of field i denotes
LitVal(kind, i) ==
  CASE kind = "bool" -> 1
    [] kind = "char" -> i
    [] OTHER -> 10 + i

DefaultFieldPlan(f, i) ==
  IF f.ty = "nat"
  THEN IF f.dflt = "none" THEN <<"nat", 0, 0, 0>> ELSE <<"nat", 0, LitVal(f.dflt, i), 0>>
  ELSE CASE f.dflt = "none" -> <<"new", i, 7, GDefault>>
         [] f.dflt = "expr" -> <<"new", 0, LitVal("expr", i), GExpr>>
         [] f.dflt = "int8" -> <<"new", 0, LitVal(f.dflt, i), GFrom8>>
         [] OTHER -> <<"new", 0, LitVal(f.dflt, i), GFrom>>

\* the designated variant (for a union: `variant` 1 and the designated field)
MarkedVariants(c) == { v \in 1..NVariants(c) : c.variants[v].dflt }
DefaultVariant(c) ==
  IF c.kind # "enum" \/ NVariants(c) = 1 THEN 1
  ELSE CHOOSE v \in MarkedVariants(c) : TRUE

UnionMarked(c) == { i \in FieldIdx(c, 1) : c.variants[1].fields[i].dflt # "none" \/ c.variants[1].fields[i].deref }
\* (for union fields the bare #[educe(Default)] flag is carried in f.deref to
\* keep the universal field record small)
UnionDefaultField(c) ==
  IF NFields(c, 1) = 1 THEN 1 ELSE CHOOSE i \in UnionMarked(c) : TRUE

\* what T::default() must be, as a fingerprint <<variant, <<fields>>>>
DefaultPlan(c) ==
  IF c.opts.dexpr
  THEN IF c.kind = "union" THEN <<1, << <<"new", 0, TypeExprVal, GExpr>> >> >>
       ELSE LET v == NVariants(c) IN
         <<v, [i \in FieldIdx(c, v) |-> <<"new", 0, TypeExprVal, GExpr>>]>>
  ELSE IF c.kind = "union"
  THEN LET i == UnionDefaultField(c) IN <<1, <<DefaultFieldPlan(c.variants[1].fields[i], i)>>>>
  ELSE LET v == DefaultVariant(c) IN
         <<v, [i \in FieldIdx(c, v) |-> DefaultFieldPlan(c.variants[v].fields[i], i)]>>

\* designation must be unambiguous, and attributes may only sit where they are
\* used (everything else is refused, C13)
DefaultWellDesignated(c) ==
  IF c.opts.dexpr
  THEN /\ MarkedVariants(c) = {}
       /\ \A v \in 1..NVariants(c) : \A i \in FieldIdx(c, v) :
             c.variants[v].fields[i].dflt = "none" /\ ~c.variants[v].fields[i].deref
  ELSE IF c.kind = "union"
  THEN NFields(c, 1) = 1 \/ Cardinality(UnionMarked(c)) = 1
  ELSE IF c.kind = "enum"
  THEN /\ NVariants(c) >= 1
       /\ (NVariants(c) > 1 => Cardinality(MarkedVariants(c)) = 1)
       /\ \A v \in 1..NVariants(c) : v # DefaultVariant(c) =>
             \A i \in FieldIdx(c, v) : c.variants[v].fields[i].dflt = "none"
  ELSE TRUE

\* conversions logged: exactly the probe-typed fields of the designated variant
\* that carry a literal
DefaultFromCalls(c) ==
  IF c.opts.dexpr THEN {}
  ELSE LET v == IF c.kind = "union" THEN 1 ELSE DefaultVariant(c)
           fs == IF c.kind = "union" THEN {UnionDefaultField(c)} ELSE FieldIdx(c, v)
       IN { i \in fs : c.variants[v].fields[i].ty = "P" /\ c.variants[v].fields[i].dflt \in LitKinds }

\* the fields' initialisers run in declaration order (a struct literal evaluates in the order it is written, so a
\* generated literal that lists the fields in another order changes what impure initialisers produce)
InDeclOrder(order) == \A i \in 1..(Len(order) - 1) : order[i] < order[i + 1]
PropDefault(c, e) ==
  /\ e.res = DefaultPlan(c)
  /\ e.froms = Cardinality(DefaultFromCalls(c))
  /\ ~c.opts.dexpr => InDeclOrder(e.order)        \* (a type-level expression is the user's own code)
  /\ c.opts.newfn => e.newres = e.res


\* ======================================================================
\* Deref / DerefMut (C09)
\* ======================================================================
\* The designated field of a variant: the sole field, or the one carrying the
\* marker (Deref and DerefMut markers are independent).
DerefMarked(c, v) == { i \in FieldIdx(c, v) : c.variants[v].fields[i].deref }
DMutMarked(c, v)  == { i \in FieldIdx(c, v) : c.variants[v].fields[i].dmut }
Designated(c, v, marked) == IF NFields(c, v) = 1 THEN 1 ELSE CHOOSE i \in marked : TRUE
DerefField(c, v) == Designated(c, v, DerefMarked(c, v))
DMutField(c, v)  == Designated(c, v, DMutMarked(c, v))

\* unambiguous designation in every variant; no unit variants (C13 otherwise)
DerefWellDesignated(c) ==
  /\ NVariants(c) >= 1
  /\ \A v \in 1..NVariants(c) :
       /\ NFields(c, v) >= 1
       /\ NFields(c, v) > 1 => Cardinality(DerefMarked(c, v)) = 1
       /\ NFields(c, v) = 1 => Cardinality(DerefMarked(c, v)) <= 1
       /\ IF HasTrait(c, "DerefMut")
          THEN /\ NFields(c, v) > 1 => Cardinality(DMutMarked(c, v)) = 1
               /\ NFields(c, v) = 1 => Cardinality(DMutMarked(c, v)) <= 1
          ELSE DMutMarked(c, v) = {}

\* e: one observation on a value of variant e.a.v: di / dmi = index of the field
\* whose storage (or referent) `&*x` / `&mut *x` points at (0 = none of them);
\* after = fingerprint of all fields after `*x = W` where W is a fresh probe
\* <<"c", 9, 5, 0>>.
PropDeref(c, e) ==
  LET v == e.a.v IN
  /\ e.di = DerefField(c, v)
  /\ HasTrait(c, "DerefMut") =>
       /\ e.dmi = DMutField(c, v)
       /\ e.after[1] = v
       /\ \A i \in FieldIdx(c, v) :
             e.after[2][i] = IF i = DMutField(c, v) THEN <<"c", 9, 5, 0>> ELSE <<"a", i, e.a.f[i], 0>>


\* ======================================================================
\* Into (C10)
\* ======================================================================
\* c.opts.targets: the requested target types, a subset of {"A", "B"} written as
\* a sequence.  Field type classes: "A", "B" (the target types themselves) and
\* "P" (converts into both through From).  f.into: the field's markers, a
\* sequence of [t |-> target, m |-> has method].
IntoMarks(c, v, i, t) == { k \in DOMAIN c.variants[v].fields[i].into : c.variants[v].fields[i].into[k].t = t }
IntoMarked(c, v, t) == { i \in FieldIdx(c, v) : IntoMarks(c, v, i, t) # {} }
IntoSameType(c, v, t) == { i \in FieldIdx(c, v) : c.variants[v].fields[i].ty = t }
MarkHasMethod(c, v, i, t) ==
  \E k \in IntoMarks(c, v, i, t) : c.variants[v].fields[i].into[k].m

\* designated field for target t in variant v (0 = none / ambiguous)
IntoField(c, v, t) ==
  IF NFields(c, v) = 1 THEN 1
  ELSE IF Cardinality(IntoMarked(c, v, t)) = 1 THEN CHOOSE i \in IntoMarked(c, v, t) : TRUE
  ELSE IF IntoMarked(c, v, t) # {} THEN 0
  ELSE IF Cardinality(IntoSameType(c, v, t)) = 1 THEN CHOOSE i \in IntoSameType(c, v, t) : TRUE
  ELSE 0

\* how the designated field reaches the target
IntoMode(c, v, t) ==
  LET i == IntoField(c, v, t) IN
    IF MarkHasMethod(c, v, i, t) THEN "method"
    ELSE IF c.variants[v].fields[i].ty = t THEN "identity"
    ELSE "convert"

\* IntoDesignated: every target resolves to exactly one field in every variant (what the macro checks);
\* IntoWellDesignated adds the well-typedness of the run-time corpora: a field that needs a conversion has the
\* probe type P (which converts into both targets).  The generic corpora (C11, C12) state their own typing.
IntoDesignated(c) ==
  /\ NVariants(c) >= 1
  /\ Len(c.opts.targets) >= 1
  /\ \A v \in 1..NVariants(c) :
       /\ NFields(c, v) >= 1
       /\ \A k \in DOMAIN c.opts.targets : IntoField(c, v, c.opts.targets[k]) # 0
       \* markers only for requested targets, each target at most once per field
       /\ \A i \in FieldIdx(c, v) :
            /\ \A k \in DOMAIN c.variants[v].fields[i].into :
                  c.variants[v].fields[i].into[k].t \in SeqToSet(c.opts.targets)
            /\ \A t \in {"A", "B"} : Cardinality(IntoMarks(c, v, i, t)) <= 1
IntoWellDesignated(c) ==
  /\ IntoDesignated(c)
  /\ \A v \in 1..NVariants(c) : \A k \in DOMAIN c.opts.targets :
        LET t == c.opts.targets[k] IN
          IntoMode(c, v, t) = "convert" => c.variants[v].fields[IntoField(c, v, t)].ty = "P"

GenOfMode(m) == IF m = "method" THEN GMethod ELSE IF m = "identity" THEN GOrig ELSE GFrom

\* e: x.into() for target e.k on value e.a; res = provenance of the returned
\* value <<origin side, origin field, value, how produced>>
PropInto(c, e) ==
  LET v == e.a.v
      i == IntoField(c, v, e.k)
  IN e.res = <<"a", i, e.a.f[i], GenOfMode(IntoMode(c, v, e.k))>>


\* ======================================================================
\* Unions (C20)
\* ======================================================================
\* A union configuration has one "variant" whose fields carry a type class;
\* the value of a union is the sequence of its size_of::<Self>() bytes.
USizeOf(t) == CASE t = "u8" -> 1 [] t = "u16" -> 2 [] t = "a3" -> 3 [] t = "u32" -> 4 [] t = "a16x4" -> 8 [] OTHER -> 1
UAlignOf(t) == CASE t = "u8" -> 1 [] t = "u16" -> 2 [] t = "a3" -> 1 [] t = "u32" -> 4 [] t = "a16x4" -> 2 [] OTHER -> 1
MaxOf(S) == CHOOSE x \in S : \A y \in S : y <= x
USize(c) ==
  LET ts == { c.variants[1].fields[i].ty : i \in FieldIdx(c, 1) }
      sz == MaxOf({ USizeOf(t) : t \in ts })
      al == MaxOf({ UAlignOf(t) : t \in ts })
  IN ((sz + al - 1) \div al) * al

UnionName(c, nm) ==
  CASE c.opts.dname = "off" -> NoName
    [] c.opts.dname = "custom" -> TypeCustom
    [] OTHER -> nm

ByteList(bytes) == "[" \o JoinWith([i \in DOMAIN bytes |-> ToString(bytes[i])], ", ") \o "]"
RECURSIVE Lines2(_)
Lines2(items) == IF items = <<>> THEN "" ELSE "        " \o Head(items) \o ",|" \o Lines2(Tail(items))

\* Debug lists the bytes: `Name([b1, b2])` through debug_tuple, or the bare
\* slice when the name is disabled
RenderUnion(c, bytes, nm, alt) ==
  LET name == UnionName(c, nm)
      items == [i \in DOMAIN bytes |-> ToString(bytes[i])]
  IN IF name = NoName
     THEN IF alt THEN "[|" \o Lines(items) \o "]" ELSE ByteList(bytes)
     ELSE IF alt THEN name \o "(|    [|" \o Lines2(items) \o "    ],|)"
                 ELSE name \o "(" \o ByteList(bytes) \o ")"

\* e: all observations on one union value (its bytes e.bytes): Debug text in
\* both modes, the recorded hasher feed next to the feed of hashing the byte
\* slice itself, the bytes of its clone, and == against every other value of
\* the type (e.eqs = sequence of <<other bytes, result>>)
PropUnion(c, e) ==
  /\ Len(e.bytes) = USize(c)
  /\ e.out = RenderUnion(c, e.bytes, e.nm, FALSE)
  /\ e.pretty = RenderUnion(c, e.bytes, e.nm, TRUE)
  /\ e.feed = e.reffeed
  /\ e.clone = e.bytes
  /\ \A k \in DOMAIN e.eqs : e.eqs[k][2] = (e.eqs[k][1] = e.bytes)

=============================================================================
