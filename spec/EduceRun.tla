------------------------------ MODULE EduceRun ------------------------------
(***************************************************************************)
(* Level R: the run-time behaviour of the impls that educe generates.      *)
(*                                                                         *)
(* For every trait method there are three definitions:                     *)
(*   *Decl  -- the declarative meaning the property states (no algorithm); *)
(*   Impl*  -- a step machine shaped like the code educe emits (one step   *)
(*             per call the generated code makes into a field's impl or a  *)
(*             custom method), used by the MC_* modules;                   *)
(*   Prop*  -- the weakest predicate over one *observed* call (operands,   *)
(*             logged field calls, result) that the property admits.       *)
(*             Verdicts on implementation traces come from Prop* only.     *)
(* TLC checks  Impl* => *Decl  and  Impl* => Prop*  on the bounded model.  *)
(*                                                                         *)
(* A logged field call is the tuple                                        *)
(*   <<fn, via, lside, lfield, lval, rside, rfield, rval, ret>>            *)
(* where side is "a"/"b" (which operand the argument was taken from),      *)
(* field is the 1-based declaration index inside the variant, and ret is   *)
(* what the probe returned.                                                *)
(***************************************************************************)
EXTENDS EduceSyntax

\* ----------------------------------------------------------------------
\* The probe semantics: what the instrumented field type and the custom
\* methods of the harness compute.  The custom methods are deliberately
\* *different* from the own impls and asymmetric, so that own/method
\* mix-ups and swapped arguments change results.
OwnEq(x, y)    == x = y
MethodEq(x, y) == ((x + 1) % 3) = y

FieldEq(via, x, y) == IF via = Method THEN MethodEq(x, y) ELSE OwnEq(x, y)

\* the well-behaved stand-in used for the law checks (an equivalence that is
\* not the identity)
ParityEq(x, y) == (x % 2) = (y % 2)
LawFieldEq(via, x, y) == IF via = Method THEN ParityEq(x, y) ELSE OwnEq(x, y)

CallFn(c)  == c[1]
CallVia(c) == c[2]
CallLS(c)  == c[3]
CallLF(c)  == c[4]
CallLV(c)  == c[5]
CallRS(c)  == c[6]
CallRF(c)  == c[7]
CallRV(c)  == c[8]
CallRet(c) == c[9]

MkCall(fn, via, ls, lf, lv, rs, rf, rv, ret) == <<fn, via, ls, lf, lv, rs, rf, rv, ret>>

\* ======================================================================
\* PartialEq (C02)
\* ======================================================================
EqCompared(c, v) == { i \in FieldIdx(c, v) : c.variants[v].fields[i].eq # Ignore }
EqVia(c, v, i) == c.variants[v].fields[i].eq

\* declarative meaning, parameterised by the field relation
EqDeclWith(c, a, b, Rel(_, _, _)) ==
  /\ a.v = b.v
  /\ \A i \in EqCompared(c, a.v) : Rel(EqVia(c, a.v, i), a.f[i], b.f[i])

EqDecl(c, a, b) == EqDeclWith(c, a, b, FieldEq)

\* --- Impl: the emitted chain.  `if ne(&self.f, &other.f) { return false }`
\* for own fields, `if !method(&self.f, &other.f) { return false }` for method
\* fields, in declaration order, skipping ignored fields, ending in `true`;
\* enums first test that `other` is the same variant.
\* run = [op, a, b, pc, calls, done, ret]; ret is meaningful once done.
EqNextField(c, v, pc) ==
  LET rest == { i \in EqCompared(c, v) : i >= pc }
  IN IF rest = {} THEN 0 ELSE CHOOSE i \in rest : \A j \in rest : i <= j

ImplEqStep(c, r) ==
  IF r.a.v # r.b.v THEN [r EXCEPT !.done = TRUE, !.ret = FALSE]
  ELSE LET i == EqNextField(c, r.a.v, r.pc) IN
    IF i = 0 THEN [r EXCEPT !.done = TRUE, !.ret = TRUE]
    ELSE LET via == EqVia(c, r.a.v, i)
             res == FieldEq(via, r.a.f[i], r.b.f[i])
             call == IF via = Method
                     THEN MkCall("eq", Method, "a", i, r.a.f[i], "b", i, r.b.f[i], res)
                     ELSE MkCall("ne", Own, "a", i, r.a.f[i], "b", i, r.b.f[i], ~res)
         IN IF res THEN [r EXCEPT !.pc = i + 1, !.calls = Append(@, call)]
                   ELSE [r EXCEPT !.pc = i + 1, !.calls = Append(@, call),
                                  !.done = TRUE, !.ret = FALSE]

\* --- Prop: what any correct implementation's observed call must satisfy.
\* Every logged call is on a compared field of the (common) variant, takes
\* the left operand's field first, goes through the method iff the field has
\* one, and returned what the probe relation says for the logged operands.
\* A `true` result needs the same variant and an "equal" call for every
\* compared field; a `false` result needs different variants or one "unequal"
\* call.  Order of calls, repetition and short-circuiting are free.
EqCallOK(c, a, b, k) ==
  /\ a.v = b.v
  /\ CallLF(k) = CallRF(k)
  /\ CallLF(k) \in EqCompared(c, a.v)
  /\ CallLS(k) = "a" /\ CallRS(k) = "b"
  /\ CallLV(k) = a.f[CallLF(k)] /\ CallRV(k) = b.f[CallRF(k)]
  /\ CallVia(k) = EqVia(c, a.v, CallLF(k))
  /\ CallFn(k) \in {"eq", "ne"}
  /\ CallVia(k) = Method => CallFn(k) = "eq"
  /\ CallRet(k) = IF CallFn(k) = "eq" THEN FieldEq(CallVia(k), CallLV(k), CallRV(k))
                                        ELSE ~FieldEq(CallVia(k), CallLV(k), CallRV(k))

\* does call k say "field equal"?
EqCallSaysEqual(k) == IF CallFn(k) = "eq" THEN CallRet(k) ELSE ~CallRet(k)

PropEq(c, a, b, calls, ret) ==
  /\ \A j \in DOMAIN calls : EqCallOK(c, a, b, calls[j])
  /\ IF ret
     THEN /\ a.v = b.v
          /\ \A i \in EqCompared(c, a.v) :
               \E j \in DOMAIN calls : CallLF(calls[j]) = i /\ EqCallSaysEqual(calls[j])
     ELSE \/ a.v # b.v
          \/ \E j \in DOMAIN calls : ~EqCallSaysEqual(calls[j])

\* `a != b` must be the negation of `a == b`: an observed `ne` call is judged
\* as an `eq` call with the negated result.
PropNe(c, a, b, calls, ret) == PropEq(c, a, b, calls, ~ret)

=============================================================================
