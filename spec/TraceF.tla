------------------------------- MODULE TraceF -------------------------------
(***************************************************************************)
(* Trace validation, channel F: one feature subset at a time.              *)
(*   op = "build"    -- cargo check of the crate itself with exactly the   *)
(*                      subset e.features: must succeed without warnings   *)
(*                      (the empty subset must fail with the crate's       *)
(*                      explicit message)                                  *)
(*   op = "expand"   -- an input that only names enabled traits, expanded  *)
(*                      by the crate built with the subset: must be        *)
(*                      accepted with the same tokens as in the            *)
(*                      all-features build (e.ref)                         *)
(*   op = "refuse"   -- an input (naming enabled traits only) that the     *)
(*                      all-features build refuses: must be refused too    *)
(*   op = "disabled" -- an input naming a disabled trait: must be refused  *)
(*                      as an unsupported trait                            *)
(***************************************************************************)
EXTENDS Naturals, Sequences, TLC, Json, IOUtils

Rec == ndJsonDeserialize(IOEnv.TRACE)
MaxBad == 40
VARIABLES l, bad
tvars == <<l, bad>>

Accept(e) ==
  CASE e.op = "build" ->
         IF e.features = <<>> THEN ~e.ok /\ e.explicit
         ELSE e.ok /\ e.warnings = 0
    [] e.op = "expand" -> e.outcome = "ok" /\ e.out = e.ref
    \* (e.listed: the "available traits" the diagnostic offers are exactly the enabled features)
    [] e.op = "disabled" -> e.outcome = "err" /\ e.unsupported /\ e.listed
    \* an input that only names enabled traits and that the all-features build refuses: refused here as well
    [] e.op = "refuse" -> e.outcome = "err"
    [] OTHER -> FALSE

TraceInit == l = 1 /\ bad = <<>>
Consume ==
  /\ l <= Len(Rec)
  /\ bad' = IF Accept(Rec[l]) \/ Len(bad) >= MaxBad THEN bad ELSE Append(bad, l)
  /\ l' = l + 1
Finish ==
  /\ l = Len(Rec) + 1
  /\ l' = l + 1
  /\ UNCHANGED bad
  /\ PrintT(<<"RESULT", ToJson([n |-> Len(Rec), bad |-> bad, learned |-> 0])>>)
TraceNext == Consume \/ Finish
TraceSpec == TraceInit /\ [][TraceNext]_tvars
TraceConsumed == TLCGet("stats").diameter = Len(Rec) + 2
=============================================================================
