------------------------------- MODULE MC_C14 -------------------------------
(***************************************************************************)
(* C14: alternative attribute spellings are interchangeable.               *)
(* For every multi-trait configuration the specification lists its         *)
(* *spelling sites* (where a request can be written in more than one way)  *)
(* with the class of each (EduceSpell); a spelling group is one site with  *)
(* all members of its class, everything else written canonically.  All     *)
(* members of a group must expand to the same tokens.                      *)
(***************************************************************************)
EXTENDS EduceMulti, EduceSpell

vars == <<cfg, phase>>

\* the explicit rank used by the `rank` tweak: negative, so that sign handling is exercised in every spelling
NegRank == {-3}

AllEight == <<"Debug", "Clone", "PartialEq", "Eq", "PartialOrd", "Ord", "Hash", "Default">>
Alone == <<"Debug", "PartialEq", "PartialOrd", "Hash", "Clone">>   \* primaries without their partners: their own parsers run
IntoOnly == <<"Into">>
TraitSetsQuick == { AllEight, Alone, IntoOnly }
TraitSetsThorough == { AllEight, Alone, IntoOnly, <<"Debug", "Into">>, <<"Debug", "PartialEq", "PartialOrd">>, <<"Hash", "Clone", "Copy", "Default">> }

S3(a, b, c) == a \o "/" \o b \o "/" \o c
FSite(v, i, t, what) == "f/" \o ToString(v) \o "/" \o ToString(i) \o "/" \o t \o "/" \o what
FBase(v, i, what) == "f/" \o ToString(v) \o "/" \o ToString(i) \o "/" \o what
VSite(v, what) == "v/" \o ToString(v) \o "/" \o what

Ordered(c) == Has(c, "PartialOrd") \/ Has(c, "Ord")

\* the metas a field carries, as <<trait tag, number of parameters, set of sites>>
DebugFieldSites(c, v, i) ==
  LET f == c.variants[v].fields[i] IN
    IF ~Has(c, "Debug") \/ (f.dbg = Own /\ f.key = "") THEN {}
    ELSE IF f.dbg = Ignore /\ f.key = "" THEN { <<FSite(v, i, "Debug", "ignore"), "ignore">> }
    ELSE IF f.dbg = Own THEN { <<FSite(v, i, "Debug", "key"), "key">> }
    ELSE (IF f.dbg = Ignore THEN { <<FSite(v, i, "Debug", "ignore"), "ignore_p">> }
                            ELSE { <<FSite(v, i, "Debug", "method"), "method_p">> })
         \cup (IF f.key # "" THEN { <<FSite(v, i, "Debug", "key"), "key_p">>, <<FSite(v, i, "Debug", "order"), "order">> } ELSE {})

OrdFieldSites(c, v, i) ==
  LET f == c.variants[v].fields[i] IN
    IF ~Ordered(c) \/ (f.ord = Own /\ f.rank = NoRank) THEN {}
    ELSE IF f.ord = Ignore /\ f.rank = NoRank THEN { <<FSite(v, i, "Ord", "ignore"), "ignore">> }
    ELSE (IF f.ord = Ignore THEN { <<FSite(v, i, "Ord", "ignore"), "ignore_p">> }
          ELSE IF f.ord = Method THEN { <<FSite(v, i, "Ord", "method"), "method_p">> } ELSE {})
         \cup (IF f.rank # NoRank THEN { <<FSite(v, i, "Ord", "rank"), "rank_p">> } ELSE {})
         \cup (IF f.ord # Own /\ f.rank # NoRank THEN { <<FSite(v, i, "Ord", "order"), "order">> } ELSE {})

NMetas(c, v, i) ==
  LET f == c.variants[v].fields[i] IN
    B2N(Has(c, "Debug") /\ (f.dbg # Own \/ f.key # "")) + B2N(Has(c, "Clone") /\ f.clone = Method)
    + B2N(Has(c, "PartialEq") /\ f.eq # Own) + B2N(Ordered(c) /\ (f.ord # Own \/ f.rank # NoRank))
    + B2N(Has(c, "Hash") /\ f.hash # Own) + B2N(Has(c, "Default") /\ f.dflt # "none")
    + (IF Has(c, "Into") THEN Len(f.into) ELSE 0)

FieldSites(c, v, i) ==
  LET f == c.variants[v].fields[i] IN
    DebugFieldSites(c, v, i) \cup OrdFieldSites(c, v, i)
    \cup (IF Has(c, "Clone") /\ f.clone = Method THEN { <<FSite(v, i, "Clone", "method"), "method_p">> } ELSE {})
    \cup (IF Has(c, "PartialEq") /\ f.eq = Ignore THEN { <<FSite(v, i, "PartialEq", "ignore"), "ignore">> } ELSE {})
    \cup (IF Has(c, "PartialEq") /\ f.eq = Method THEN { <<FSite(v, i, "PartialEq", "method"), "method_p">> } ELSE {})
    \cup (IF Has(c, "Hash") /\ f.hash = Ignore THEN { <<FSite(v, i, "Hash", "ignore"), "ignore">> } ELSE {})
    \cup (IF Has(c, "Hash") /\ f.hash = Method THEN { <<FSite(v, i, "Hash", "method"), "method_p">> } ELSE {})
    \cup (IF Has(c, "Default") /\ f.dflt # "none" THEN { <<FSite(v, i, "Default", "expr"), "expr">> } ELSE {})
    \cup (IF Has(c, "Into")
          THEN { <<FSite(v, i, "Into:" \o f.into[k].t, "method"), "method_p">> : k \in { j \in DOMAIN f.into : f.into[j].m } }
          ELSE {})
    \cup (IF NMetas(c, v, i) >= 2 THEN { <<FBase(v, i, "order"), "order">>, <<FBase(v, i, "split"), "split">> } ELSE {})

VariantSites(c, v) ==
  LET var == c.variants[v]
      dbgmeta == Has(c, "Debug") /\ c.kind = "enum" /\ (var.dname # "default" \/ var.dnf # "default")
      nmeta == B2N(dbgmeta) + B2N(Has(c, "Default") /\ var.dflt)
  IN (IF ~dbgmeta THEN {}
      ELSE IF var.dname = "custom" /\ var.dnf = "default" THEN { <<VSite(v, "Debug/name"), "name">> }
      ELSE (IF var.dname = "off" THEN { <<VSite(v, "Debug/name"), "name_off_p">> }
            ELSE IF var.dname = "custom" THEN { <<VSite(v, "Debug/name"), "name_p">> } ELSE {})
           \cup (IF var.dnf # "default" THEN { <<VSite(v, "Debug/named_field"), "bool_p">> } ELSE {})
           \cup (IF var.dname # "default" /\ var.dnf # "default" THEN { <<VSite(v, "Debug/order"), "order">> } ELSE {}))
     \cup (IF nmeta >= 2 THEN { <<VSite(v, "order"), "order">>, <<VSite(v, "split"), "split">> } ELSE {})

TypeSites(c) ==
  LET o == c.opts
      dbg == Has(c, "Debug")
      nd == B2N(o.dname # "default") + B2N(o.dnf # "default")
  IN (IF Len(o.traits) >= 2 THEN { <<"t/order", "order">>, <<"t/split", "split">> } ELSE {})
     \cup (IF ~dbg \/ nd = 0 THEN {}
           ELSE IF o.dname = "custom" /\ o.dnf = "default" THEN { <<"t/Debug/name", "name">> }
           ELSE (IF o.dname = "off" THEN { <<"t/Debug/name", "name_off_p">> }
                 ELSE IF o.dname = "on" THEN { <<"t/Debug/name", "name_on_p">> }
                 ELSE IF o.dname = "custom" THEN { <<"t/Debug/name", "name_p">> } ELSE {})
                \cup (IF o.dnf # "default" THEN { <<"t/Debug/named_field", "bool_p">> } ELSE {})
                \cup (IF nd >= 2 THEN { <<"t/Debug/order", "order">> } ELSE {}))
     \cup (IF Has(c, "Default") /\ o.newfn THEN { <<"t/Default/new", "new_p">> } ELSE {})

SitesOf(c) ==
  TypeSites(c)
  \cup UNION { VariantSites(c, v) : v \in 1..NVariants(c) }
  \cup UNION { UNION { FieldSites(c, v, i) : i \in FieldIdx(c, v) } : v \in 1..NVariants(c) }

SiteSeq(c) ==
  LET S == SitesOf(c)
      RECURSIVE ToSeq(_)
      ToSeq(T) == IF T = {} THEN <<>> ELSE LET x == CHOOSE y \in T : TRUE IN <<[site |-> x[1], cls |-> x[2], n |-> NSpellings(x[2])]>> \o ToSeq(T \ {x})
  IN ToSeq(S)

Init == BuildInit

Emit ==
  /\ phase = "sealed"
  /\ phase' = "emitted"
  /\ UNCHANGED cfg
  /\ PrintT(<<"SITES", ToJson([cfg |-> cfg, sites |-> SiteSeq(cfg)])>>)

DoStart      == \E k \in KindSet : \E o \in TypeOptSet(k) : Start(k, o)
DoAddVariant == \E vo \in VarOptSet(cfg) : AddVariant(vo)
DoAddField   == \E f \in FieldSet(cfg) : AddField(f)
Next == DoStart \/ DoAddVariant \/ DoAddField \/ Seal \/ Emit
Spec == Init /\ [][Next]_vars

\* every site names an existing class with at least one spelling, and a site
\* is never listed with two classes
SitesWellFormed ==
  phase = "sealed" =>
    /\ \A s \in SitesOf(cfg) : s[2] \in SpellClasses /\ NSpellings(s[2]) >= 1
    /\ \A s, t \in SitesOf(cfg) : s[1] = t[1] => s = t
=============================================================================
