SPECIFICATION Spec
CONSTANTS
  KindSet <- MCKindSet
  TypeOptSet <- MCTypeOptSet
  VarOptSet <- MCVarOptSet
  FieldSet <- MCFieldSet
  Admissible <- MCAdmissible
  MaxVariants = 2
  MaxFields = 3
  Narrow = TRUE
  Vals = {0, 1}
INVARIANTS ImplMeetsDecl ImplMeetsProp FeedFunctionOfKey
CHECK_DEADLOCK FALSE
