SPECIFICATION Spec
CONSTANTS
  MaxTargets = 4
  MapOrder = "ordered"
  OtherTraits = {{}, {"Debug", "Clone"}}
INVARIANTS Deterministic IntoExactlyRequested
CHECK_DEADLOCK FALSE
