SPECIFICATION Spec
CONSTANTS
  MaxTargets = 4
  MapOrder = "ordered"
  Memo = "none"
  OtherTraits = {{}, {"Debug", "Clone"}, {"PartialOrd"}, {"PartialEq", "Eq", "PartialOrd", "Ord"}}
INVARIANTS Deterministic IntoExactlyRequested
CHECK_DEADLOCK FALSE
