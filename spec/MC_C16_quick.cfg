SPECIFICATION Spec
CONSTANTS
  MaxTargets = 4
  MapOrder = "ordered"
  Memo = "none"
  OtherTraits = {{}, {"Debug", "Clone"}, {"PartialOrd"}, {"PartialEq", "Eq", "PartialOrd", "Ord"}, {"Debug", "Clone", "Copy", "PartialEq", "Eq", "PartialOrd", "Ord", "Hash", "Default", "Deref", "DerefMut"}}
INVARIANTS Deterministic IntoExactlyRequested
CHECK_DEADLOCK FALSE
