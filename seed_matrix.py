#!/usr/bin/env python3
"""Runs the quick checks against every seeded change (apply to /repo, run, undo) and writes seeded/<id>/meta.json.

usage: seed_matrix.py [id ...]      (default: all)
"""
import json
import os
import subprocess
import sys

ROOT = '/verif'
RELATED = {
    'C01_a': ['C01', 'C12'], 'C02_a': ['C02'], 'C03_a': ['C03'], 'C04_a': ['C04'], 'C04_d1': ['C04'], 'C05_a': ['C05'],
    'C06_a': ['C06'], 'C07_a': ['C07'], 'C08_a': ['C08', 'C15'], 'C09_a': ['C09'], 'C10_a': ['C10'], 'C11_a': ['C11'],
    'C12_a': ['C12'], 'C13_a': ['C13'], 'C14_a': ['C14'], 'C15_a': ['C15'],
    'C16_a': ['C16', 'C12'], 'C17_a': ['C17', 'C02'], 'C18_a': ['C18'], 'C19_a': ['C19'], 'C20_a': ['C20'],
    'C02_b': ['C02', 'C15'], 'C03_b': ['C03'], 'C05_b': ['C05'], 'C06_b': ['C06'], 'C07_b': ['C07'], 'C08_b': ['C08'],
    'C10_b': ['C10'], 'C13_b': ['C13'],
    'C04_c': ['C04'], 'C09_c': ['C09'], 'C11_c': ['C11'], 'C12_c': ['C12'], 'C14_c': ['C14', 'C10'], 'C15_c': ['C15'],
    'C02_d': ['C02'], 'C03_d': ['C03'], 'C05_d': ['C05'], 'C06_d': ['C06'], 'C07_d': ['C07'], 'C08_d': ['C08'], 'C09_d': ['C09'], 'C10_d': ['C10'],
    'C11_d': ['C11', 'C12'], 'C12_d': ['C12'], 'C13_d': ['C13'], 'C14_d': ['C14', 'C15'], 'C15_d': ['C15', 'C14'],
    'C01_e': ['C01', 'C19'], 'C04_e': ['C04'], 'C05_e': ['C05'], 'C07_e': ['C07'], 'C09_e': ['C09'], 'C13_e': ['C13'], 'C16_e': ['C16'], 'C17_e': ['C17'],
    'C18_e': ['C18'], 'C19_e': ['C19'], 'C20_e': ['C20'],
    'C02_f': ['C02'], 'C03_f': ['C03', 'C19'], 'C04_f': ['C04'], 'C06_f': ['C06'], 'C08_f': ['C08'], 'C10_f': ['C10'], 'C11_f': ['C11', 'C12'], 'C12_f': ['C12'],
    'C14_f': ['C14', 'C15'], 'C15_f': ['C15'], 'C16_f': ['C16', 'C19'], 'C20_f': ['C20'],
    'C01_g': ['C01', 'C03'], 'C05_g': ['C05'], 'C06_g': ['C06'], 'C07_g': ['C07'], 'C09_g': ['C09'], 'C10_g': ['C10', 'C14'], 'C13_g': ['C13'], 'C17_g': ['C17'],
    'C18_g': ['C18'], 'C19_g': ['C19'],
    'C02_h': ['C02'], 'C03_h': ['C03'], 'C04_h': ['C04'], 'C08_h': ['C08'], 'C11_h': ['C11'], 'C12_h': ['C12'], 'C14_h': ['C14', 'C02'], 'C15_h': ['C15'],
    'C16_h': ['C16'], 'C20_h': ['C20', 'C13'],
    'C01_i': ['C01', 'C07'], 'C05_i': ['C05'], 'C06_i': ['C06'], 'C07_i': ['C07', 'C19'], 'C09_i': ['C09'], 'C10_i': ['C10', 'C12'], 'C13_i': ['C13'], 'C17_i': ['C17'],
    'C18_i': ['C18'], 'C19_i': ['C19', 'C05'],
    'C02_j': ['C02'], 'C03_j': ['C03'], 'C04_j': ['C04'], 'C08_j': ['C08'], 'C11_j': ['C11'], 'C12_j': ['C12'], 'C14_j': ['C14', 'C03'], 'C15_j': ['C15'],
    'C16_j': ['C16'], 'C20_j': ['C20', 'C08'],
    'C01_k': ['C01'], 'C05_k': ['C05'], 'C06_k': ['C06'], 'C07_k': ['C07'], 'C09_k': ['C09'], 'C10_k': ['C10'], 'C13_k': ['C13'], 'C17_k': ['C17'],
    'C18_k': ['C18'], 'C19_k': ['C19'],
    'C02_l': ['C02'], 'C03_l': ['C03'], 'C04_l': ['C04'], 'C08_l': ['C08'], 'C12_l': ['C12'], 'C16_l': ['C16'],
    'C11_m': ['C11'], 'C14_m': ['C14'], 'C17_m': ['C17'],
    'C01_c': ['C01', 'C12'], 'C16_c': ['C16'], 'C17_c': ['C17'], 'C18_c': ['C18', 'C13'], 'C19_c': ['C19', 'C03'], 'C20_c': ['C20'],
}


def sh(cmd, **kw):
    return subprocess.run(cmd, shell=True, stdout=subprocess.PIPE, stderr=subprocess.STDOUT, text=True, **kw)


def main():
    ids = sys.argv[1:] or sorted(RELATED)
    for sid in ids:
        d = os.path.join(ROOT, 'seeded', sid)
        st = sh('git -C /repo status --porcelain').stdout.strip()
        if st:
            print('refusing: /repo is dirty:\n' + st)
            return 1
        results = {}
        if sh('git -C /repo apply %s/patch.diff' % d).returncode != 0:
            print('%s: patch does not apply' % sid)
            continue
        try:
            for prop in RELATED[sid]:
                p = sh('cd /verif && ./check run %s --tier quick' % prop)
                nv = sum(1 for l in p.stdout.split('\n') if l.startswith('VIOLATION'))
                results[prop] = {'exit': p.returncode, 'violation_lines': nv}
                print('%s vs %s: exit=%d violations=%d' % (sid, prop, p.returncode, nv), flush=True)
        finally:
            sh('git -C /repo checkout -- .')
        agent = json.load(open(os.path.join(d, 'agent_meta.json'))) if os.path.exists(os.path.join(d, 'agent_meta.json')) else {}
        verify = json.load(open(os.path.join(d, 'verify.json'))) if os.path.exists(os.path.join(d, 'verify.json')) else {}
        meta = {
            'id': sid,
            'breaks_property': sid.split('_')[0],
            'summary': agent.get('summary', 'regression of the original C04 defect: the Ord enum handler reads the discriminant from the value\'s bytes again'),
            'needs_to_manifest': agent.get('needs', 'an Ord-educed enum whose tag is not a plain integer at offset 0 (single variant, niche-encoded), or any enum next to other bytes'),
            'written_by': 'fresh sub-agent given only the property text and a scratch worktree' if agent else 'me (reverse of fix 61d8db6 for the Ord handler)',
            'confirmed_in_scratch_worktree': verify,
            'what_i_ran': ['./verify_seeded.sh %s' % sid] + ['git -C /repo apply seeded/%s/patch.diff; ./check run %s --tier quick; git -C /repo checkout -- .' % (sid, p) for p in RELATED[sid]],
            'quick_checks': results,
            'caught_by': sorted(p for p, r in results.items() if r['exit'] == 1),
        }
        json.dump(meta, open(os.path.join(d, 'meta.json'), 'w'), indent=1)
    return 0


if __name__ == '__main__':
    sys.exit(main())
