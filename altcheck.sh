#!/bin/bash
# usage: altcheck.sh <seeded-id> <prop>...   — triage while /repo is busy (a long batch is reading it): runs the quick checks
# from a scratch copy of /verif (/tmp/verif_alt) against a scratch worktree of /repo (/tmp/mutrepo) with the seeded change
# applied.  The recorded results in seeded/<id>/meta.json always come from seed_matrix.py, i.e. from /verif against /repo itself.
id=$1; shift
if [ ! -d /tmp/mutrepo ]; then git -C /repo worktree add --detach /tmp/mutrepo HEAD -q && cp /repo/Cargo.lock /tmp/mutrepo/; fi
git -C /tmp/mutrepo checkout -q -- . 
rsync -a --delete --exclude work --exclude target --exclude replays --exclude .git --exclude 'harness/rt/cases' /verif/ /tmp/verif_alt/
sed -i 's#/repo#/tmp/mutrepo#g' /tmp/verif_alt/lib/*.py /tmp/verif_alt/harness/inproc/Cargo.toml
mkdir -p /tmp/verif_alt/work
if [ "$id" != "none" ]; then git -C /tmp/mutrepo apply /verif/seeded/$id/patch.diff || { echo "cannot apply"; exit 3; }; fi
for prop in "$@"; do
  (cd /tmp/verif_alt && ./check run $prop --tier quick > /tmp/verif_alt/work/alt_${id}_${prop}.log 2>&1); rc=$?
  echo "alt: $id vs $prop: exit=$rc violations=$(grep -c '^VIOLATION' /tmp/verif_alt/work/alt_${id}_${prop}.log)"
done
git -C /tmp/mutrepo checkout -q -- .
