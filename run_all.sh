#!/bin/bash
# usage: run_all.sh quick|thorough  — runs every check once, prints exit code and wall time per property
tier=${1:-quick}
mkdir -p work
for p in C01 C02 C03 C04 C05 C06 C07 C08 C09 C10 C11 C12 C13 C14 C15 C16 C17 C18 C19 C20; do
  s=$(date +%s)
  ./check run $p --tier $tier > work/all_${tier}_$p.log 2>&1; rc=$?
  e=$(date +%s)
  echo "$p exit=$rc $((e-s))s violations=$(grep -c '^VIOLATION' work/all_${tier}_$p.log) known=$(grep -c '^KNOWN-FINDING' work/all_${tier}_$p.log)"
done
