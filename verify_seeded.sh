#!/bin/bash
# usage: verify_seeded.sh <id>...   — confirms each seeded change in a scratch worktree of /repo (outside /repo and /verif):
#   (1) applies cleanly, (2) crate builds without warnings, (3) the whole existing suite passes with it,
#   (4) the demonstration fails with it and (5) passes without it.  Writes seeded/<id>/verify.json.
for id in "$@"; do
  d=/verif/seeded/$id
  wt=/tmp/sv_$id
  rm -rf $wt; git -C /repo worktree prune
  git -C /repo worktree add --detach $wt HEAD -q || { echo "$id: worktree failed"; continue; }
  cp /repo/Cargo.lock $wt/
  export CARGO_TARGET_DIR=$wt/target
  cd $wt
  res_apply=ok; git apply $d/patch.diff || res_apply=FAIL
  warn=$(cargo build --offline 2>&1 | grep -c "^warning")
  suite=$(cargo test --offline --no-fail-fast 2>&1 | grep -E "^test result" | awk '{p+=$4; f+=$6} END{print p" passed "f" failed"}')
  [ -f $d/zz_demo.rs ] && cp $d/zz_demo.rs tests/zz_demo.rs
  if [ -f $d/zz_demo.sh ]; then
    sed "s#/tmp/mut[0-9]*_[A-Za-z0-9]*#$wt#g" $d/zz_demo.sh > zz_demo.sh; chmod +x zz_demo.sh
    ./zz_demo.sh > demo_with.log 2>&1; with=$?
  else
    cargo test --offline --test zz_demo > demo_with.log 2>&1; with=$?
  fi
  git checkout -q -- src Cargo.toml 2>/dev/null
  if [ -f $d/zz_demo.sh ]; then
    ./zz_demo.sh > demo_without.log 2>&1; without=$?
  else
    cargo test --offline --test zz_demo > demo_without.log 2>&1; without=$?
  fi
  cd /verif
  python3 - "$id" "$res_apply" "$warn" "$suite" "$with" "$without" <<'PY'
import json,sys
id,ap,warn,suite,w,wo=sys.argv[1:]
json.dump({'id':id,'applies':ap,'build_warnings_with_change':int(warn),'existing_suite_with_change':suite,
           'demo_exit_with_change':int(w),'demo_exit_without_change':int(wo),
           'confirmed': ap=='ok' and int(warn)==0 and suite.endswith(' 0 failed') and int(w)!=0 and int(wo)==0},
          open('/verif/seeded/%s/verify.json'%id,'w'),indent=1)
print(open('/verif/seeded/%s/verify.json'%id).read())
PY
  git -C /repo worktree remove --force $wt
done
git -C /repo worktree prune
