"""The channel-X pipeline shared by the expansion-level properties:

  TLC (MC_<id>) --abstract inputs--> render to tokens --> in-process expansion (real entry point) --> trace --> TLC (TraceX)
"""
import hashlib
import json
import os

import rpipe
import tlc
import xchan
from tlc import ToolError


def digest(s):
    return hashlib.sha256(s.encode()).hexdigest()[:24]


def run_requests(ctx, exe, requests, meta, trace_name='xtrace.ndjson', project=None):
    """requests: list of dict(id, text[, reps]); meta: dict id -> dict(mode, g/expect, ...) merged into every record of that request.

    Writes the trace (out replaced by its digest) and returns (trace_path, records).
    """
    recs = xchan.expand(exe, requests)
    by_id = {r['id']: r for r in requests}
    path = os.path.join(ctx.workdir, trace_name)
    slim = []
    with open(path, 'w') as f:
        for r in recs:
            m = meta[r['id']]
            e = {'ev': 'expand', 'id': r['id'], 'rep': r.get('rep', 0), 'outcome': r['outcome'],
                 'out': (digest(project(r, m)) if project else digest(r['out'])) if r.get('out') is not None else '', 'mode': m['mode'],
                 'g': m.get('g', ''), 'expect': m.get('expect', ''), 'reset': bool(m.get('reset', False)) and r.get('rep', 0) == 0}
            f.write(json.dumps(e, separators=(',', ':')) + '\n')
            slim.append(e)
    return path, recs


def validate(ctx, trace_path):
    res = tlc.run_trace('TraceX', 'TraceX.cfg', ctx.workdir, {'TRACE': trace_path})
    if not res['consumed']:
        tail = '\n'.join(res['text'].split('\n')[-40:])
        raise ToolError('trace validation (TraceX) did not consume the trace (exit %s):\n%s' % (res['exit'], tail))
    ctx.info('X trace validated: %d records, %d rejected, %.1fs' % (res['n'], len(res['bad']), res['wall_s']))
    return res
