"""./check — driver of the educe verification framework (see DESIGN.md section 9).

  ./check setup
  ./check run <ID> [--tier quick|thorough]
  ./check replay <file>
exit codes: 0 held on everything explored, 1 VIOLATION (with replay file), 2 tool error / timeout / vacuous run
"""
import argparse
import hashlib
import json
import os
import subprocess
import sys
import time
import traceback

import cases
import tlc
from tlc import ToolError

ROOT = os.path.dirname(os.path.dirname(os.path.abspath(__file__)))
EVID = os.path.join(ROOT, 'evidence')
REPLAYS = os.path.join(ROOT, 'replays')
WORK = os.path.join(ROOT, 'work')


def known_findings():
    try:
        return json.load(open(os.path.join(ROOT, 'known_findings.json')))
    except OSError:
        return {'findings': [], 'fixed': []}


class Ctx:
    def __init__(self, prop, tier, seed):
        self.prop = prop
        self.tier = tier
        self.seed = seed
        self.t0 = time.time()
        self.workdir = os.path.join(WORK, '%s_%s' % (prop, tier))
        os.makedirs(self.workdir, exist_ok=True)
        os.makedirs(EVID, exist_ok=True)
        os.makedirs(REPLAYS, exist_ok=True)
        self.violations = []     # list of (replay_path, key)
        self.known_hits = []     # list of finding dicts that matched
        self.notes = []
        self.coverage = {}
        self.assumptions = []
        self.only_cfg = None

    def note(self, s):
        self.notes.append(s)
        print('NOTE ' + s, flush=True)

    def info(self, s):
        print('[%s %6.1fs] %s' % (self.prop, time.time() - self.t0, s), flush=True)

    def violation(self, key, payload):
        """key: stable identification of the failing configuration/input (matched against known_findings)."""
        for f in known_findings().get('findings', []):
            if f.get('property') == self.prop and f.get('key') == key:
                if f not in self.known_hits:
                    self.known_hits.append(f)
                    print('KNOWN-FINDING: property=%s %s' % (self.prop, f.get('what', key)), flush=True)
                return
        h = hashlib.sha256(json.dumps(key, sort_keys=True).encode()).hexdigest()[:12]
        path = os.path.join(REPLAYS, '%s-%s.json' % (self.prop, h))
        if any(p == path for p, _ in self.violations):
            return      # the same violation (same key) observed again
        payload = dict(payload)
        payload['property'] = self.prop
        payload['key'] = key
        payload['repro'] = './check replay %s' % path
        with open(path, 'w') as f:
            json.dump(payload, f, indent=1)
        if len(self.violations) < 60:
            print('VIOLATION property=%s replay=%s' % (self.prop, path), flush=True)
        self.violations.append((path, key))

    def write_evidence(self, level='model_checking'):
        cov = dict(self.coverage)
        cov.setdefault('samples', [])
        ev = {
            'property_id': self.prop,
            'tier': self.tier,
            'seed': self.seed,
            'level': level,
            'coverage': cov,
            'assumptions': self.assumptions,
            'wall_s': round(time.time() - self.t0, 2),
            'violations': len(self.violations),
            'known_findings': [f.get('key') for f in self.known_hits],
            'notes': self.notes[:50],
        }
        with open(os.path.join(EVID, '%s.json' % self.prop), 'w') as f:
            json.dump(ev, f, indent=1)


def setup():
    """Build everything that does not depend on a corpus, offline."""
    for d in ('harness/inproc', 'harness/rt'):
        full = os.path.join(ROOT, d)
        cases.ensure_lock(full)
        p = subprocess.run(['cargo', 'build', '--offline'], cwd=full)
        if p.returncode != 0:
            return 2
    # TLC smoke: parse every spec module
    return 0


def main(argv):
    ap = argparse.ArgumentParser(prog='check')
    sub = ap.add_subparsers(dest='cmd')
    sub.add_parser('setup')
    sub.add_parser('selftest')
    r = sub.add_parser('run')
    r.add_argument('prop')
    r.add_argument('--tier', default=os.environ.get('VERIF_TIER', 'quick'))
    rp = sub.add_parser('replay')
    rp.add_argument('file')
    args = ap.parse_args(argv)
    if args.cmd == 'setup':
        return setup()
    if args.cmd == 'selftest':
        import selftest
        return selftest.main()
    if args.cmd == 'replay':
        import replay
        return replay.replay(args.file)
    if args.cmd == 'run':
        import props
        seed = int(os.environ.get('VERIF_SEED', '1'))
        tier = args.tier if args.tier in ('quick', 'thorough') else 'quick'
        ctx = Ctx(args.prop, tier, seed)
        try:
            fn = props.REGISTRY[args.prop]
        except KeyError:
            print('unknown property %s' % args.prop)
            return 2
        try:
            fn(ctx)
        except ToolError as e:
            print('TOOL-ERROR %s' % e, flush=True)
            ctx.note('tool error: %s' % e)
            ctx.coverage.setdefault('evaluations', 0)
            try:
                ctx.write_evidence()
            except Exception:
                pass
            return 2
        except Exception:
            traceback.print_exc()
            return 2
        ctx.write_evidence()
        # a thorough-tier trace can be several GB: it has been judged and reported, keep the disk for the next check
        for name in ('trace.ndjson', 'xtrace.ndjson'):
            tp = os.path.join(ctx.workdir, name)
            try:
                if os.path.getsize(tp) > 500 * 1000 * 1000:
                    os.remove(tp)
            except OSError:
                pass
        if ctx.violations:
            return 1
        return 0
    ap.print_help()
    return 2
