"""Thin wrappers around TLC: model checking (corpus emission) and trace validation."""
import json
import os
import re
import shutil
import subprocess
import time

ROOT = os.path.dirname(os.path.dirname(os.path.abspath(__file__)))
SPEC = os.path.join(ROOT, 'spec')
WORK = os.path.join(ROOT, 'work')

TLC_CP = '/opt/veriftools/tla/tla2tools.jar:/opt/veriftools/tla/CommunityModules-deps.jar'


class ToolError(Exception):
    pass


def _unquote_tla_string(s):
    """TLC prints strings as "..." with \\" and \\\\ escapes."""
    assert s.startswith('"') and s.endswith('"'), s[:80]
    body = s[1:-1]
    out = []
    i = 0
    while i < len(body):
        ch = body[i]
        if ch == '\\' and i + 1 < len(body):
            nxt = body[i + 1]
            if nxt == 'n':
                out.append('\n')
            elif nxt == 't':
                out.append('\t')
            else:
                out.append(nxt)
            i += 2
        else:
            out.append(ch)
            i += 1
    return ''.join(out)


def parse_tagged(line, tag):
    """<<"TAG", "json string">>  ->  python object (None if the line is not such a line)."""
    prefix = '<<"%s", ' % tag
    if not line.startswith(prefix) or not line.rstrip().endswith('>>'):
        return None
    inner = line.rstrip()[len(prefix):-2]
    return json.loads(_unquote_tla_string(inner))


def run_mc(module, cfg, workdir, workers=8, timeout=600, simulate=None, seed=None, heap='8g', tags=('CORPUS',), extra_env=None):
    """Run TLC on spec/<module>.tla with spec/<cfg>. Returns dict(stats, tagged lines, coverage, raw tail).

    simulate: None for exhaustive BFS, or dict(num=..., depth=...) for -simulate.
    """
    os.makedirs(workdir, exist_ok=True)
    meta = os.path.join(workdir, 'meta_' + cfg.replace('.cfg', ''))
    shutil.rmtree(meta, ignore_errors=True)
    cmd = ['timeout', str(timeout), 'java', '-XX:+UseParallelGC', '-Xmx' + heap, '-Xss64m', '-cp', TLC_CP, 'tlc2.TLC',
           '-workers', str(workers), '-metadir', meta, '-cleanup', '-noGenerateSpecTE', '-coverage', '1',
           '-config', os.path.join(SPEC, cfg)]
    if simulate:
        cmd += ['-simulate', 'num=%d' % simulate['num'], '-depth', str(simulate['depth'])]
        if seed is not None:
            cmd += ['-seed', str(seed)]
    cmd += [os.path.join(SPEC, module + '.tla')]
    env = dict(os.environ)
    if extra_env:
        env.update(extra_env)
    t0 = time.time()
    p = subprocess.run(cmd, cwd=workdir, stdout=subprocess.PIPE, stderr=subprocess.STDOUT, text=True, env=env)
    wall = time.time() - t0
    out = p.stdout
    tagged = {t: [] for t in tags}
    other = []
    for line in out.split('\n'):
        hit = False
        for t in tags:
            if line.startswith('<<"%s", ' % t):
                try:
                    tagged[t].append(parse_tagged(line, t))
                except Exception as e:  # noqa
                    raise ToolError('cannot parse %s line: %s (%s)' % (t, line[:200], e))
                hit = True
                break
        if not hit:
            other.append(line)
    text = '\n'.join(other)
    stats = {'wall_s': round(wall, 2), 'exit': p.returncode}
    m = re.search(r'(\d+) states generated, (\d+) distinct states found, (\d+) states left on queue', text)
    if m:
        stats['generated'] = int(m.group(1))
        stats['distinct'] = int(m.group(2))
        stats['queue'] = int(m.group(3))
    m = re.search(r'The depth of the complete state graph search is (\d+)', text)
    if m:
        stats['depth'] = int(m.group(1))
    if simulate:
        m = re.search(r'The number of states generated: (\d+)', text)
        if m:
            stats['generated'] = int(m.group(1))
            stats['distinct'] = int(m.group(1))
    # per-action coverage: lines like "<Seal line 64, col 1 to line 70, col 40 of module EduceBuild>: 1568:1568"
    cov = {}
    for m in re.finditer(r'^<(\w+) line \d+, col \d+ to line \d+, col \d+ of module (\w+)(?: \([\d ]+\))?>: (\d+):(\d+)', text, re.M):
        name = m.group(1)
        cov[name] = cov.get(name, 0) + int(m.group(4))
    ok = ('Model checking completed. No error has been found.' in text) or (simulate and p.returncode in (0, 124) and 'Error:' not in text)
    violated = None
    m = re.search(r'Error: Invariant (\w+) is violated', text)
    if m:
        violated = m.group(1)
    m2 = re.search(r'Error: Action property (\w+) is violated', text)
    if m2:
        violated = m2.group(1)
    return {'ok': bool(ok), 'violated': violated, 'stats': stats, 'tagged': tagged, 'coverage': cov, 'text': text}


def run_trace(module, cfg, workdir, env, timeout=1800, heap='6g'):
    """Validate a trace with spec/<module>.tla. Returns dict(consumed, n, bad, wall_s, text)."""
    os.makedirs(workdir, exist_ok=True)
    meta = os.path.join(workdir, 'meta_trace_' + module + '_' + str(os.getpid()))
    shutil.rmtree(meta, ignore_errors=True)
    cmd = ['timeout', str(timeout), 'java', '-XX:+UseParallelGC', '-Xmx' + heap, '-Xss1g',
           '-Dtlc2.tool.queue.IStateQueue=StateDeque', '-cp', TLC_CP, 'tlc2.TLC',
           '-workers', '1', '-metadir', meta, '-cleanup', '-noGenerateSpecTE',
           '-config', os.path.join(SPEC, cfg), os.path.join(SPEC, module + '.tla')]
    e = dict(os.environ)
    e.update(env)
    t0 = time.time()
    p = subprocess.run(cmd, cwd=workdir, stdout=subprocess.PIPE, stderr=subprocess.STDOUT, text=True, env=e)
    wall = time.time() - t0
    shutil.rmtree(meta, ignore_errors=True)
    text = p.stdout
    res = {'wall_s': round(wall, 2), 'exit': p.returncode, 'text': text, 'n': None, 'bad': None, 'consumed': False, 'learned': None}
    for line in text.split('\n'):
        if line.startswith('<<"RESULT", '):
            r = parse_tagged(line, 'RESULT')
            res['n'] = r['n']
            res['bad'] = list(r['bad'])
            res['learned'] = r.get('learned')
    m = re.search(r'(\d+) states generated, (\d+) distinct states found', text)
    if m:
        res['states'] = int(m.group(2))
    res['consumed'] = ('Model checking completed. No error has been found.' in text) and res['n'] is not None
    return res
