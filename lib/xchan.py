"""Channel X: in-process expansion through harness/inproc (the crate compiled under --cfg magiclen_educe_verif)."""
import json
import os
import subprocess
import time

import cases
from tlc import ToolError

ROOT = os.path.dirname(os.path.dirname(os.path.abspath(__file__)))
INPROC = os.path.join(ROOT, 'harness', 'inproc')


def build(ctx=None, features=None, target_dir=None):
    cases.ensure_lock(INPROC)
    cmd = ['cargo', 'build', '--offline', '-q']
    if features is not None:
        cmd += ['--no-default-features', '--features', ','.join(features)]
    env = dict(os.environ)
    if target_dir:
        env['CARGO_TARGET_DIR'] = target_dir
    t0 = time.time()
    p = subprocess.run(cmd, cwd=INPROC, stdout=subprocess.PIPE, stderr=subprocess.STDOUT, text=True, env=env)
    if p.returncode != 0:
        raise ToolError('building the in-process expansion harness failed:\n' + p.stdout[-4000:])
    if ctx:
        ctx.info('inproc harness built in %.1fs' % (time.time() - t0))
    return os.path.join(target_dir or os.path.join(INPROC, 'target'), 'debug', 'expand')


def expand(exe, requests, out_path=None, timeout=1200, jobs=8):
    """parallel front end: contiguous chunks of the request list go to `jobs` child processes; order is preserved"""
    if jobs <= 1 or len(requests) < 200:
        return expand1(exe, requests, out_path, timeout)
    from concurrent.futures import ThreadPoolExecutor
    n = len(requests)
    size = (n + jobs - 1) // jobs
    chunks = [requests[i:i + size] for i in range(0, n, size)]
    with ThreadPoolExecutor(max_workers=jobs) as ex:
        parts = list(ex.map(lambda c: expand1(exe, c, None, timeout), chunks))
    records = [r for part in parts for r in part]
    if out_path:
        with open(out_path, 'w') as f:
            for r in records:
                f.write(json.dumps(r, separators=(',', ':')) + '\n')
    return records


def expand_fresh(exe, requests, jobs=16):
    """every request alone in a freshly spawned process (no prior history at all); order is preserved"""
    from concurrent.futures import ThreadPoolExecutor
    with ThreadPoolExecutor(max_workers=jobs) as ex:
        parts = list(ex.map(lambda r: expand1(exe, [r], None, 120), requests))
    return [r for part in parts for r in part]


def expand1(exe, requests, out_path=None, timeout=1200):
    """requests: list of dict(id, text[, reps]). Returns the list of records (one per expansion, in order).

    A hard abort of the child (stack overflow, abort()) loses the record being computed: it is reported as
    outcome 'abort' for that request and the remaining requests are fed to a fresh child.
    """
    records = []
    pending = list(requests)
    guard = 0
    while pending:
        guard += 1
        if guard > 50:
            raise ToolError('expand: too many child restarts')
        inp = '\n'.join(json.dumps(r) for r in pending) + '\n'
        p = subprocess.run([exe], input=inp, stdout=subprocess.PIPE, stderr=subprocess.PIPE, text=True, timeout=timeout)
        got = [json.loads(l) for l in p.stdout.split('\n') if l.startswith('{')]
        records.extend(got)
        # how many requests were fully answered?
        need = 0
        consumed = 0
        cnt = 0
        for r in pending:
            reps = r.get('reps', 1)
            if cnt + reps <= len(got):
                cnt += reps
                consumed += 1
            else:
                break
        if consumed == len(pending) and p.returncode == 0:
            break
        if consumed == len(pending):
            break
        # child died while working on pending[consumed]
        bad = pending[consumed]
        # drop partial repetitions of the aborted request
        records = records[:len(records) - (len(got) - cnt)]
        records.append({'ev': 'expand', 'id': bad['id'], 'rep': 0, 'outcome': 'abort', 'err': 'child exited with %s: %s' % (p.returncode, p.stderr[-300:]),
                        'out': None, 'items': []})
        pending = pending[consumed + 1:]
    if out_path:
        with open(out_path, 'w') as f:
            for r in records:
                f.write(json.dumps(r, separators=(',', ':')) + '\n')
    return records
