"""Extract the cfg-gating facts of /repo for spec/EduceFeatures.tla (C18). Pure text extraction, no judgement."""
import json
import os
import re

REPO = '/repo'
SRC = os.path.join(REPO, 'src')

FEATURE_DIRS = {'Debug': 'debug', 'Clone': 'clone', 'Copy': 'copy', 'PartialEq': 'partial_eq', 'Eq': 'eq', 'PartialOrd': 'partial_ord',
                'Ord': 'ord', 'Hash': 'hash', 'Default': 'default', 'Deref': 'deref', 'DerefMut': 'deref_mut', 'Into': 'into'}


def cargo_features():
    txt = open(os.path.join(REPO, 'Cargo.toml')).read()
    m = re.search(r'^\[features\](.*?)(?:^\[|\Z)', txt, re.S | re.M)
    feats = []
    for line in m.group(1).split('\n'):
        mm = re.match(r'^(\w+)\s*=\s*\[(.*)\]', line.strip())
        if mm and mm.group(1) not in ('default', 'full'):
            feats.append(mm.group(1))
    return feats


def gates_of_modfile(path):
    """module name -> list of features gating `mod name;` in a mod.rs ([] = ungated)"""
    txt = open(path).read()
    out = {}
    pending = None
    buf = ''
    for line in txt.split('\n'):
        s = line.strip()
        buf += ' ' + s
        m = re.match(r'^(?:pub(?:\([^)]*\))?\s+)?mod\s+(r#)?(\w+)\s*;', s)
        if m:
            name = m.group(2)
            # the attributes accumulated since the last item
            cfgs = re.findall(r'#\[cfg\((.*?)\)\]\s', buf + ' ')
            feats = []
            for c in re.findall(r'#\[cfg\(((?:[^()]|\([^()]*\))*)\)\]', buf):
                if c.strip().startswith('not'):
                    continue
                feats += re.findall(r'feature\s*=\s*"(\w+)"', c)
            out[name] = feats
            buf = ''
        elif s.endswith(';') or s.endswith('}'):
            if not s.startswith('#'):
                buf = ''
    return out


def use_statements(txt):
    return re.findall(r'\buse\s+(crate::[^;]*|super::[^;]*);', txt, re.S)


def common_modules_in(stmt, prefix='common::'):
    """first path segments after every `common::` occurrence (handles one level of braces)"""
    mods = set()
    for m in re.finditer(re.escape(prefix), stmt):
        rest = stmt[m.end():]
        if rest.lstrip().startswith('{'):
            depth = 0
            item = ''
            body = rest.lstrip()[1:]
            for ch in body:
                if ch == '{':
                    depth += 1
                elif ch == '}':
                    if depth == 0:
                        break
                    depth -= 1
                if ch == ',' and depth == 0:
                    mods.add(item.strip())
                    item = ''
                else:
                    item += ch
            mods.add(item.strip())
        else:
            mods.add(re.match(r'[\w#:]+', rest.strip()).group(0))
    out = set()
    for it in mods:
        it = it.strip()
        if not it:
            continue
        segs = it.replace('r#', '').split('::')
        out.add(tuple(segs))
    return out


def tools_owner(name):
    """which tools submodule defines an exported name"""
    d = os.path.join(SRC, 'common', 'tools')
    for f in os.listdir(d):
        if f == 'mod.rs' or not f.endswith('.rs'):
            continue
        if re.search(r'\b(struct|enum|fn|trait)\s+%s\b' % re.escape(name), open(os.path.join(d, f)).read()):
            return f[:-3]
    return None


def extract():
    feats = cargo_features()
    gate = {}
    parent = {}
    for name, fs in gates_of_modfile(os.path.join(SRC, 'common', 'mod.rs')).items():
        gate[name] = fs
        parent[name] = ''
    for name, fs in gates_of_modfile(os.path.join(SRC, 'common', 'tools', 'mod.rs')).items():
        gate['tools::' + name] = fs
        parent['tools::' + name] = 'tools'
    handler_gate = gates_of_modfile(os.path.join(SRC, 'trait_handlers', 'mod.rs'))

    def modules_of(paths):
        ms = set()
        for segs in paths:
            if segs[0] == 'tools':
                ms.add('tools')
                if len(segs) > 1:
                    owner = tools_owner(segs[1])
                    if owner:
                        ms.add('tools::' + owner)
            else:
                ms.add(segs[0])
        return ms

    uses = {}
    for f, d in FEATURE_DIRS.items():
        found = set()
        for root, _, files in os.walk(os.path.join(SRC, 'trait_handlers', d)):
            for fn in files:
                if fn.endswith('.rs'):
                    txt = open(os.path.join(root, fn)).read()
                    for st in use_statements(txt):
                        if st.startswith('crate::') and 'common::' in st:
                            found |= modules_of(common_modules_in(st))
        uses[f] = sorted(m for m in found if m in gate)
    deps = {m: [] for m in gate}
    cdir = os.path.join(SRC, 'common')
    for fn in os.listdir(cdir):
        if fn.endswith('.rs') and fn != 'mod.rs':
            name = fn[:-3]
            if name == 'type':
                name = 'type'
            txt = open(os.path.join(cdir, fn)).read()
            found = set()
            for st in use_statements(txt):
                if st.startswith('super::'):
                    found.add(re.match(r'super::(?:r#)?(\w+)', st).group(1))
                if 'common::' in st:
                    found |= modules_of(common_modules_in(st))
            if name in deps:
                deps[name] = sorted(m for m in found if m in gate and m != name)
    # paired cfg(feature) / cfg(not(feature)) twins: two adjacent cfg attributes guarding `let <same binding>`
    pairs = []
    for root, _, files in os.walk(SRC):
        for fn in files:
            if not fn.endswith('.rs'):
                continue
            path = os.path.join(root, fn)
            txt = open(path).read()
            for m in re.finditer(r'#\[cfg\(feature\s*=\s*"(\w+)"\)\]\s*let\s+(?:mut\s+)?(\w+)[^;]*;\s*#\[cfg\(not\(feature\s*=\s*"(\w+)"\)\)\]\s*let\s+(?:mut\s+)?(\w+)', txt):
                if m.group(2) == m.group(4):
                    pairs.append({'file': os.path.relpath(path, REPO), 'binding': m.group(2), 'pos': m.group(1), 'neg': m.group(3)})
    facts = {'features': feats, 'modules': sorted(gate), 'gate': gate, 'parent': parent, 'uses': uses, 'deps': deps, 'pairs': pairs,
             'handler_gate': handler_gate}
    return facts


if __name__ == '__main__':
    print(json.dumps(extract(), indent=1))
