"""Per-property decision procedures (DESIGN.md section 6)."""
import json
import os
import time

import rpipe
from render import TypeRender
from tlc import ToolError


def nontrivial(cfg):
    """a configuration is non-trivial if it has more than one variant or a field with a non-default attribute"""
    from_default = False
    for var in cfg['variants']:
        for f in var['fields']:
            if any(f.get(k, 'own') != 'own' for k in ('eq', 'ord', 'hash', 'dbg', 'clone')) or f.get('rank', -999) != -999 \
                    or f.get('key', '') or f.get('dflt', 'none') != 'none' or f.get('deref') or f.get('dmut') or f.get('into'):
                from_default = True
        if var.get('dname', 'default') != 'default' or var.get('dnf', 'default') != 'default' or var.get('dflt') or var.get('disc', -999) != -999:
            from_default = True
    return from_default or len(cfg['variants']) > 1


def r_property(ctx, mc_runs, required_actions, render_cls, run_calls, dom, assumptions, rule, trace_module='TraceR', trace_cfg='TraceR.cfg', prelude='',
               extra_records=None):
    corpus = rpipe.model_check(ctx, mc_runs, required_actions)
    if not corpus:
        raise ToolError('empty corpus')
    corpus_path = os.path.join(ctx.workdir, 'corpus.ndjson')
    rpipe.write_ndjson(corpus_path, corpus)
    renders = [render_cls(i, c, ctx.prop) for i, c in enumerate(corpus, 1)]
    trace, dropped = rpipe.build_and_run(ctx, ctx.prop, renders, run_calls, dom, prelude=prelude)
    for idx, msgs in sorted(dropped.items()):
        r = renders[idx - 1]
        ctx.violation({'kind': 'does-not-compile', 'cfg': corpus[idx - 1]},
                      {'what': 'the impl generated for this accepted configuration does not compile cleanly, so the property cannot hold for it',
                       'source': r.item(), 'diagnostics': msgs})
    if extra_records:
        # records read off the in-process expansion of the same items (expansion-level facts the specification predicts)
        with open(trace, 'a') as f:
            for e in extra_records(renders, dropped):
                f.write(json.dumps(e, separators=(',', ':')) + '\n')
    res = rpipe.validate_trace(ctx, corpus_path, trace, trace_module, trace_cfg)
    recs = rpipe.load_lines(trace, res['bad'])
    per_type = {}
    for ln in res['bad']:
        e = recs[ln]
        per_type.setdefault(e['t'], []).append(e)
    for t, evs in sorted(per_type.items()):
        e = evs[0]
        r = renders[t - 1]
        key = {'kind': 'trace-rejected', 'cfg': corpus[t - 1], 'op': e.get('op'), 'a': e.get('a'), 'b': e.get('b')}
        ctx.violation(key, {'what': 'the specification (Prop* in EduceRun.tla) cannot explain this observed call',
                            'source': r.item(), 'event': e, 'more_rejected_events_for_this_type': len(evs) - 1,
                            'corpus_index': t})
    n = res['n']
    ctx.coverage.update({
        'traces_validated_against_impl': n - len(res['bad']),   # every record is one complete public call: its own small trace
        'trace_files': 1,
        'trace_events': n,
        'trace_events_rejected': len(res['bad']),
        'programs': len(corpus),
        'evaluations': n,
        'distinct_nontrivial': sum(1 for c in corpus if nontrivial(c)),
        'rule': rule,
        'value_domain': list(dom),
        'types_not_compiling': len(dropped),
        'samples': [
            {'configuration': corpus[min(len(corpus) - 1, len(corpus) // 2)],
             'rendered': renders[min(len(corpus) - 1, len(corpus) // 2)].item()},
            {'trace_record': first_line(trace)},
        ],
    })
    ctx.assumptions += assumptions


def first_line(path):
    with open(path) as f:
        for i, line in enumerate(f):
            if i == 7:
                return json.loads(line)
        f.seek(0)
        line = f.readline()
        return json.loads(line) if line.strip() else None


COMMON_ASSUMPTIONS = [
    'TLC 1.8 and the CommunityModules Json reader are trusted',
    'the renderer (lib/render.py) maps an abstract configuration to the Rust item it denotes',
    'the probe crate (harness/rt/probes) logs faithfully and implements the probe semantics stated in EduceRun.tla',
    'rustc 1.95 is the arbiter of what the generated code does',
]


# ---------------------------------------------------------------- type parametricity (expansion level)
PARAM_EXTRA_TYPES = ['*const [u8]', '*mut str', 'tagged::PhantomData<u8>', 'PhantomData<u8>', '::core::marker::PhantomData<u8>', '(u8, u16)',
                     "Option<&'static str>", '::std::vec::Vec<u8>', 'Self_', '[[u8; 2]; 3]', "&'static &'static u8", 'fn(u8) -> u8']


def type_parametricity(ctx, trait_lists):
    """For Debug / Clone / PartialEq / Eq / PartialOrd / Ord / Hash the written type of a field is nothing but a token string
    to the macro (it reappears in where-predicates only): the expansion with field type X must be the expansion with the
    reference type, X substituted.  One TraceX group per (shape, trait list); the projected expansions must agree."""
    sub = SubCtx(ctx, 'typaram')
    exe = xchan.build(None)
    recs = model_check_tagged(sub, [{'module': 'EduceTypes', 'cfg': 'MC_Typed_quick.cfg', 'workers': 4, 'timeout': 900}], 'TYTYPED')
    types = sorted({r['ty'] for r in recs if len(r['wraps']) <= 1 and not __import__('re').search(r"\bT\b|'a", r['ty']) and r['ty'] != '()'}) + PARAM_EXTRA_TYPES      # (`()` is a token sequence the generated code uses itself)
    shapes = ['struct T { a: ZZ9, f: %s }', 'struct T(ZZ9, %s);', 'enum T { V1 { a: ZZ9, f: %s }, V2(%s), V3 }']
    ref = 'QQ'
    requests, meta, tyof = [], {}, {}
    for si, sh in enumerate(shapes):
        for ti, tl in enumerate(trait_lists):
            g = 'p%d.%d' % (si, ti)
            for k, ty in enumerate([ref] + types):
                rid = '%s#%d' % (g, k)
                requests.append({'id': rid, 'text': '#[educe(%s)] %s' % (tl, sh.replace('%s', ty))})
                meta[rid] = {'mode': 'same', 'g': g, 'reset': k == 0}
                tyof[rid] = ty

    import re as _re
    tok = _re.compile(r"'?[A-Za-z_][A-Za-z_0-9]*|\d+|::|->|[^\sA-Za-z_0-9]")

    def project(r, m):
        # replace the token sequence of the field type (never a substring of another token) by the reference type
        out, ty = tok.findall(r['out']), tok.findall(tyof[r['id']])
        res, i, n = [], 0, len(ty)
        while i < len(out):
            if out[i:i + n] == ty:
                res.append(ref)
                i += n
            else:
                res.append(out[i])
                i += 1
        return ' '.join(res)

    trace, raw = xpipe.run_requests(sub, exe, requests, meta, trace_name='ptrace.ndjson', project=project)
    res = xpipe.validate(sub, trace)
    lines = rpipe.load_lines(trace, res['bad'])
    text = {q['id']: q['text'] for q in requests}
    for ln in res['bad']:
        e = lines[ln]
        ctx.violation({'kind': 'type-dependent-expansion', 'input': text[e['id']]},
                      {'what': 'the expansion depends on how the type of a field is written (beyond repeating it): it differs from the expansion for the '
                               'reference type with the type substituted', 'input': text[e['id']], 'field_type': tyof[e['id']], 'outcome': e['outcome']})
    ctx.coverage['type_parametricity'] = {'inputs': len(requests), 'field_types': len(types), 'rejected': len(res['bad']),
                                          'states': sub.coverage.get('states', 0)}


# ---------------------------------------------------------------- C02
def c02(ctx):
    quick = ctx.tier == 'quick'
    runs = [{'module': 'MC_C02', 'cfg': 'MC_C02_quick.cfg', 'workers': 8}] if quick else \
           [{'module': 'MC_C02', 'cfg': 'MC_C02_thorough.cfg', 'workers': 12, 'timeout': 3000, 'heap': '16g'}]
    runs.append({'module': 'EduceWide', 'cfg': 'Wide_C02.cfg', 'workers': 2})   # wide shapes: 12 fields per variant, 258 variants

    def calls(r):
        return ['run_eq::<%s, _>(&mut out, &dom, &all_pairs);' % r.name, 'run_eq_same::<%s, _>(&mut out, &dom);' % r.name]

    r_property(ctx, runs, ['DoSeal', 'DoBegin', 'Step', 'Return'], TypeRender, calls, [0, 1] if quick else [0, 1, 2],
               COMMON_ASSUMPTIONS,
               'every struct/enum shape within the bounds of the MC_C02 cfg x {own, ignore, method} per field x attribute carried by '
               'PartialEq(..) or Eq(..); all ordered pairs of values over the value domain, == and != each; every value (incl. the non-reflexive NaN) compared with *itself*, same object; '
               'non-trivial = more than one variant or a non-default field attribute')
    type_parametricity(ctx, ['PartialEq', 'PartialEq, Eq'])


# ---------------------------------------------------------------- C03
def c03(ctx):
    quick = ctx.tier == 'quick'
    runs = [{'module': 'MC_C03', 'cfg': 'MC_C03_quick.cfg', 'workers': 8}] if quick else \
           [{'module': 'MC_C03', 'cfg': 'MC_C03_thorough.cfg', 'workers': 12, 'timeout': 3000, 'heap': '16g'}]
    runs.append({'module': 'EduceWide', 'cfg': 'Wide_C03.cfg', 'workers': 2})   # wide shapes: 12 fields per variant, 258 variants
    # the pair instance: enums whose variants are all rich (what one variant leaves behind for the next)
    runs.append({'module': 'MC_C03', 'cfg': 'MC_C03_pair.cfg', 'workers': 8, 'timeout': 1800})
    # explicit ranks at isize::MIN and isize::MIN + 1, where they meet the implicit ones
    runs.append({'module': 'MC_C03', 'cfg': 'MC_C03_edge.cfg', 'workers': 8, 'timeout': 1800})

    def calls(r):
        out = []
        if 'Ord' in r.traits:
            out.append('run_cmp::<%s, _>(&mut out, &dom, &all_pairs);' % r.name)
            if 'PartialOrd' in r.traits:
                out.append('run_pcmp::<%s, _>(&mut out, &dom, &all_pairs);' % r.name)
        else:
            out.append('run_pcmp::<%s, _>(&mut out, &with_nan(&dom), &all_pairs);' % r.name)
            out.append('run_pcmp_same::<%s, _>(&mut out, &dom);' % r.name)
        return out

    r_property(ctx, runs, ['DoSeal', 'DoBegin', 'Step', 'Return'], TypeRender, calls, [0, 1] if quick else [0, 1, 2],
               COMMON_ASSUMPTIONS,
               'struct/enum shapes within the bounds of the MC_C03 cfg x {own, ignore, method} x ranks (default and explicit, every spelling) per field x the four '
               'ways of educing ordering (PartialOrd alone; PartialOrd+Ord with parameters under Ord(..) or PartialOrd(..); Ord with a hand-written PartialOrd); '
               'all ordered pairs of values (plus the incomparable value for a stand-alone PartialOrd); cmp and partial_cmp; '
               'non-trivial = more than one variant or a non-default field attribute')
    type_parametricity(ctx, ['PartialEq, PartialOrd', 'PartialEq, Eq, PartialOrd, Ord'])


# ---------------------------------------------------------------- C05
def c05(ctx):
    quick = ctx.tier == 'quick'
    runs = [{'module': 'MC_C05', 'cfg': 'MC_C05_quick.cfg', 'workers': 8}] if quick else \
           [{'module': 'MC_C05', 'cfg': 'MC_C05_thorough.cfg', 'workers': 12, 'timeout': 3000, 'heap': '16g'}]
    runs.append({'module': 'EduceWide', 'cfg': 'Wide_C05.cfg', 'workers': 2})   # wide shapes: 12 fields per variant, 258 variants

    def calls(r):
        return ['run_hashes::<%s, _>(&mut out, &dom);' % r.name]

    r_property(ctx, runs, ['DoSeal', 'DoBegin', 'Step', 'Return'], TypeRender, calls, [0, 1] if quick else [0, 1, 2],
               COMMON_ASSUMPTIONS + ['the probe Hash impls write self-delimiting, value-distinguishing data (stated as OwnFeed/MethodFeed in EduceRun.tla)'],
               'struct/enum shapes within the bounds of the MC_C05 cfg x Hash {own, ignore, method} per field, PartialEq educed alongside with the same ignore choices; '
               'every value of every type hashed into a recording Hasher (one trace record per type holding all observations and all == results); '
               'the record is judged over all pairs of values; non-trivial = more than one variant or a non-default field attribute')
    # trace_events counts types here; report observations as evaluations
    n_obs = 0
    with open(os.path.join(ctx.workdir, 'trace.ndjson')) as f:
        for line in f:
            n_obs += len(json.loads(line).get('obs', []))
    ctx.coverage['evaluations'] = n_obs
    ctx.coverage['hash_observations'] = n_obs
    type_parametricity(ctx, ['Hash'])


# ---------------------------------------------------------------- C04
class LayoutRender(TypeRender):
    with_finger = False


def c04(ctx):
    quick = ctx.tier == 'quick'
    runs = [{'module': 'MC_C04', 'cfg': 'MC_C04_quick.cfg', 'workers': 8}] if quick else \
           [{'module': 'MC_C04', 'cfg': 'MC_C04_thorough.cfg', 'workers': 12, 'timeout': 3000, 'heap': '16g'}]
    # discriminants only a 64-bit unsigned type holds, and ordering educed next to Copy (configurations only)
    runs.append({'module': 'MC_C04', 'cfg': 'MC_C04_big.cfg', 'workers': 8, 'timeout': 1800})

    def calls(r):
        if 'Ord' in r.traits:
            return ['run_cmp_layout::<%s, _>(&mut out, &dom, Some(&total_cmp_of::<%s>));' % (r.name, r.name)]
        return ['run_cmp_layout::<%s, _>(&mut out, &dom, None);' % r.name]

    def disc_types(renders, dropped):
        import re as _re
        exe = xchan.build(ctx)
        todo = [r for r in renders if r.idx not in dropped and len(r.cfg['variants']) >= 2]
        out = []
        for r, x in zip(todo, xchan.expand(exe, [{'id': r.idx, 'text': r.item(derive=False)} for r in todo])):
            tys = set(_re.findall(r'self_discriminant\s*:\s*(\w+)', x.get('out') or ''))
            out.append({'ev': 'op', 't': r.idx, 'op': 'disctype', 'ty': ','.join(sorted(tys)) if x['outcome'] == 'ok' else x['outcome']})
        return out

    r_property(ctx, runs, ['DoSeal', 'DoBegin', 'Step', 'Return'], LayoutRender, calls, [0, 1],
               COMMON_ASSUMPTIONS + ['payload constructors (probes::mk_*) are order-preserving on the value domain',
                                     'memory layout is outside TLA+: the specification reads discriminants only; the harness supplies payload types with '
                                     'niches / zero size, #[repr] variants and three neighbour-byte placements per comparison'],
               'enums within the bounds of the MC_C04 cfg: variant shapes (unit / one payload) x explicit discriminants (negative, gaps, descending, > 127) x #[repr] x '
               'payload types x {PartialOrd alone, PartialOrd+Ord}; all ordered pairs of values, each comparison under three neighbour-byte placements; '
               'non-trivial = more than one variant or an explicit discriminant; the integer type the impls compare discriminants in is read off the in-process expansion of '
               'every item and must be the one the specification infers (DiscTypeOf)', extra_records=disc_types)


# ---------------------------------------------------------------- C07
def c07(ctx):
    quick = ctx.tier == 'quick'
    runs = [{'module': 'MC_C07', 'cfg': 'MC_C07_quick.cfg', 'workers': 8}] if quick else \
           [{'module': 'MC_C07', 'cfg': 'MC_C07_thorough.cfg', 'workers': 12, 'timeout': 3000, 'heap': '16g'}]
    runs.append({'module': 'EduceWide', 'cfg': 'Wide_C07.cfg', 'workers': 2})   # wide shapes: 12 fields per variant, 258 variants

    def calls(r):
        return ['run_clone::<%s, _>(&mut out, &dom);' % r.name]

    r_property(ctx, runs, ['DoSeal', 'DoBegin', 'Step', 'Return'], TypeRender, calls, [0, 1] if quick else [0, 1, 2],
               COMMON_ASSUMPTIONS + ['the probe field type is Copy with a hand-written logging Clone, so a bitwise copy leaves generation 0 and no call, '
                                     'while a field-wise clone leaves generation 1/2/3 and a call'],
               'struct/enum shapes within the bounds of the MC_C07 cfg x Clone {own, method} per field x {Clone; Clone, Copy; Copy, Clone}; clone() of every value and '
               'clone_from for every ordered pair (same and different variants), results observed as per-field fingerprints (origin, value, how produced); '
               'a compile-time `T: Copy` assertion for every type that educes Copy; non-trivial = more than one variant or a non-default field attribute')
    type_parametricity(ctx, ['Clone', 'Clone, Copy'])


# ---------------------------------------------------------------- C06
class DebugRender(TypeRender):
    explicit_own = False      # (the #[derive(Debug)] twin is a textual copy of the item: no attribute the configuration does not have)

    def __init__(self, idx, cfg, prop, **kw):
        super().__init__(idx, cfg, prop, **kw)
        from render import NAME_POOLS, pick
        # ordinary identifiers only (raw identifiers are outside "byte-identical to derive(Debug)"); some of them
        # non-ASCII -- for the fields and, in a third of the configurations, for the type itself
        self.pool = [None, NAME_POOLS[2], NAME_POOLS[3], ['é', 'ñu', 'имя', '名', 'ångström']][pick([0, 0, 1, 2, 3], idx, 'names')]
        if 'name' not in kw and pick([0, 0, 1], idx, 'typename') == 1:
            self.name = 'Tä%dß' % idx
        if not self.has_params():
            # the #[derive(Debug)] twin is rendered from the same item text: keep it free of educe attributes
            self.bystander = None
            self.foreign = False

    def has_params(self):
        c = self.cfg
        if c['opts']['dname'] != 'default' or c['opts']['dnf'] != 'default':
            return True
        for var in c['variants']:
            if var['dname'] != 'default' or var['dnf'] != 'default':
                return True
            for f in var['fields']:
                if f['dbg'] != 'own' or f['key']:
                    return True
        return False

    def extra_items(self):
        if self.has_params():
            return ''
        # twin type with #[derive(Debug)], same names, in its own module
        c = self.cfg
        saved = self.type_attr
        item = self.item_plain()
        plain = item[item.index(' struct ' if c['kind'] == 'struct' else ' enum '):]
        # strip educe attributes of the item head; field/variant attrs are absent because there are no params
        arms = ' '.join('%d => %s,' % (v, self.ctor(v, var)) for v, var in enumerate(c['variants'], 1))
        return ('mod d%d { use probes::*; #[derive(Debug)] pub%s pub fn make(s: u8, v: usize, x: &[i8]) -> %s { match v { %s _ => unreachable!() } } }'
                % (self.idx, plain.replace('{ f', '{ pub f').replace(', f', ', pub f') if False else plain, self.name, arms))

    def names_literal(self):
        parts = []
        for v, var in enumerate(self.cfg['variants'], 1):
            ns = []
            for i in range(1, len(var['fields']) + 1):
                ns.append('"%s"' % (self.fname(v, i) if var['style'] == 'named' else ''))
            parts.append('&[%s][..]' % ', '.join(ns))
        return '&[%s]' % ', '.join(parts)


def c06(ctx):
    quick = ctx.tier == 'quick'
    runs = [{'module': 'MC_C06', 'cfg': 'MC_C06_quick.cfg', 'workers': 8}] if quick else \
           [{'module': 'MC_C06', 'cfg': 'MC_C06_thorough.cfg', 'workers': 12, 'timeout': 3000, 'heap': '16g'}]
    runs.append({'module': 'EduceWide', 'cfg': 'Wide_C06.cfg', 'workers': 2})   # wide shapes: 12 fields per variant, 258 variants

    def calls(r):
        twin = 'None' if r.has_params() else 'Some(&|v: usize, x: &[i8]| fmt_both(&d%d::make(0, v, x)))' % r.idx
        return ['run_fmt::<%s, _>(&mut out, &dom, "%s", %s, %s);' % (r.name, r.name, r.names_literal(), twin)]

    r_property(ctx, runs, ['DoSeal', 'DoBegin', 'Step', 'Return'], DebugRender, calls, [0, 1],
               COMMON_ASSUMPTIONS + ['probe Debug output is single-line ("p<v>" / "m<v>"), so the pretty printer does not re-indent values'],
               'struct/enum shapes within the bounds of the MC_C06 cfg x type-level name {default, off, on, custom} x named_field x variant-level name/named_field x '
               'field-level {own, ignore, method} x rename, with at most MaxDeviations non-default settings per configuration (t-way coverage); every value formatted with '
               '{:?} and {:#?}; the text must equal the TLA+ renderer of the effective shape, the field fmt calls must be exactly the shown fields in order, and '
               'configurations without parameters must print byte-identically to a #[derive(Debug)] twin; non-trivial = any non-default setting or more than one variant')
    type_parametricity(ctx, ['Debug'])      # (the name-less form generates a helper that itself mentions `&'static str`)


# ---------------------------------------------------------------- C08
class DefaultRender(TypeRender):
    NAT = {'none': 'i32', 'int': 'i32', 'int8': 'u8', 'str': "&'static str", 'bool': 'bool', 'char': 'char', 'float': 'f64'}

    def __init__(self, idx, cfg, prop, **kw):
        super().__init__(idx, cfg, prop, **kw)
        self.pool = None

    def no_default_probe(self, f):
        """a union field (or a struct / variant field) that carries its own expression: declared with the probe type
        that has no Default impl, in half of the configurations"""
        from render import hpick
        return f['ty'] != 'nat' and f.get('dflt') == 'expr' and not self.opts.get('dexpr') and hpick(2, self.idx, 'nodefault') == 0

    def field_type(self, v, i, f):
        if f['ty'] == 'nat':
            return self.NAT[f['dflt']]
        return ('PN<%d>' if self.no_default_probe(f) else 'PK<%d>') % i

    def default_value_text(self, v, i, f):
        if self.no_default_probe(f):
            return 'probes::pnexpr(%d)' % (10 + i)
        return super().default_value_text(v, i, f)

    def literal_type_expr(self):
        """a third of the type-level expressions are a bare literal (`Default(expression = 66)`): the macro converts it
        with Into, so the type gets a hand-written From<i32> that builds the very value the constructor form builds"""
        from render import hpick
        return bool(self.opts.get('dexpr')) and hpick(3, self.idx, 'dexpr-literal') == 0

    def type_default_expr(self):
        if self.literal_type_expr():
            return '66'
        return self.type_default_ctor()

    def extra_items(self):
        out = super().extra_items()
        if self.literal_type_expr():
            out += ' impl ::core::convert::From<i32> for %s { fn from(_: i32) -> Self { %s } }' % (self.name, self.type_default_ctor())
        return out

    def type_default_ctor(self):
        c = self.cfg
        v = len(c['variants'])
        var = c['variants'][v - 1]
        path = self.name if c['kind'] != 'enum' else '%s::%s' % (self.name, self.vname(v))
        n = len(var['fields'])
        if c['kind'] == 'union':
            return '%s { f1: probes::pexpr(66) }' % path
        if var['style'] == 'unit':
            return path
        args = ['probes::pexpr(66)'] * n
        if var['style'] == 'named':
            return '%s { %s }' % (path, ', '.join('%s: %s' % (self.fname(v, i), a) for i, a in enumerate(args, 1)))
        return '%s(%s)' % (path, ', '.join(args))

    def field_ctor(self, v, i, f, side, val):
        return 'unreachable!()'

    def case_impl(self):
        c = self.cfg
        if c['kind'] == 'union':
            finger = 'fn finger(&self) -> String { unsafe { format!("[1,[{}]]", self.f1.finger()) } }'
        else:
            fa = ' '.join(self.finger_arm(v, var) + ',' for v, var in enumerate(c['variants'], 1))
            finger = 'fn finger(&self) -> String { match self { %s } }' % fa
        return ('impl Case for %s { const ID: usize = %d; fn nvariants() -> usize { 0 } fn nfields(v: usize) -> usize { 0 } '
                'fn make(s: u8, v: usize, x: &[i8]) -> Self { unreachable!() } %s }' % (self.name, self.idx, finger))


def c08(ctx):
    quick = ctx.tier == 'quick'
    runs = [{'module': 'MC_C08', 'cfg': 'MC_C08_quick.cfg', 'workers': 8}] if quick else \
           [{'module': 'MC_C08', 'cfg': 'MC_C08_thorough.cfg', 'workers': 12, 'timeout': 3000, 'heap': '16g'}]

    def calls(r):
        nf = 'Some(&|| %s::new())' % r.name if r.opts.get('newfn') else 'None'
        return ['run_default::<%s, _>(&mut out, %s);' % (r.name, nf)]

    r_property(ctx, runs, ['DoSeal', 'DoBegin', 'Step', 'Return'], DefaultRender, calls, [0, 1],
               COMMON_ASSUMPTIONS + ['one probe type per field position (PK<i>) so that the fingerprint of a defaulted field identifies the field'],
               'struct/enum/union shapes within the bounds of the MC_C08 cfg x position of the #[educe(Default)] marker (first/middle/last, single variant with and without) x '
               'per-field source {Default::default(), literal of kind int/str/bool/char/float into a non-natural (probe) or natural field type, non-literal expression} in every '
               'spelling x new x type-level expression; T::default() and T::new() observed as per-field fingerprints (origin, value, how produced) plus the number of '
               'From<literal> conversions; non-trivial = any non-default setting or more than one variant')
    ctx.coverage['evaluations'] = ctx.coverage['programs']


# ---------------------------------------------------------------- C09
class DerefRender(TypeRender):
    def extra_items(self):
        return self.addrs_impl() + ' ' + super().extra_items()


def c09(ctx):
    quick = ctx.tier == 'quick'
    runs = [{'module': 'MC_C09', 'cfg': 'MC_C09_quick.cfg', 'workers': 8}] if quick else \
           [{'module': 'MC_C09', 'cfg': 'MC_C09_thorough.cfg', 'workers': 12, 'timeout': 3000, 'heap': '16g'}]
    runs.append({'module': 'EduceWide', 'cfg': 'Wide_C09.cfg', 'workers': 2})   # 12-field variants, markers at two-digit positions

    def calls(r):
        if 'DerefMut' in r.traits:
            return ['run_deref_mut::<%s, _>(&mut out, &dom);' % r.name]
        return ['run_deref::<%s, _>(&mut out, &dom);' % r.name]

    r_property(ctx, runs, ['DoSeal', 'DoBegin', 'Step', 'Return'], DerefRender, calls, [0, 1],
               COMMON_ASSUMPTIONS + ['fields are 4-byte probes at pairwise distinct addresses, so pointer identity identifies the field'],
               'struct/enum shapes (named and tuple, 1..MaxFields fields per variant) within the bounds of the MC_C09 cfg x every position of the Deref marker x every '
               'position of the DerefMut marker (independent) x value / &-reference field types; for every value: which field &*x and &mut *x point at (pointer identity), '
               'and the fingerprint of all fields after writing through &mut *x; non-trivial = more than one variant or field')


# ---------------------------------------------------------------- C10
def c10(ctx):
    quick = ctx.tier == 'quick'
    runs = [{'module': 'MC_C10', 'cfg': 'MC_C10_quick.cfg', 'workers': 8}] if quick else \
           [{'module': 'MC_C10', 'cfg': 'MC_C10_thorough.cfg', 'workers': 12, 'timeout': 3000, 'heap': '16g'}]
    runs.append({'module': 'EduceWide', 'cfg': 'Wide_C10.cfg', 'workers': 2})   # 12-field variants, markers at two-digit positions

    def calls(r):
        return ['run_into::<%s, %d, _>(&mut out, &dom);' % (r.name, {'A': 1, 'B': 2}[t]) for t in r.opts['targets']]

    r_property(ctx, runs, ['DoSeal', 'DoBegin', 'Step', 'Return'], TypeRender, calls, [0, 1],
               COMMON_ASSUMPTIONS + ['"for no other T" is settled at expansion level (item list of the in-process expansion), see C16/C12 checks'],
               'struct/enum shapes (1..MaxFields fields per variant) within the bounds of the MC_C10 cfg x target sets {A}, {A,B} (both attribute orders) x field types '
               '{A, B, convertible P} x field-level Into(T[, method]) markers, at most MaxDeviations non-default settings (t-way coverage); x.into() for every requested '
               'target on every value, observed as the provenance of the returned value (which field it came from; returned unchanged / through From / through the method); '
               'non-trivial = more than one variant or field, or any marker')


# ---------------------------------------------------------------- C20
class UnionRender(TypeRender):
    UT = {'u8': ('u8', 1, 1), 'u16': ('u16', 2, 2), 'a3': ('[u8; 3]', 3, 1), 'u32': ('u32', 4, 4), 'a16x4': ('[u16; 4]', 8, 2)}

    def __init__(self, idx, cfg, prop, **kw):
        super().__init__(idx, cfg, prop, **kw)
        self.pool = None

    def usize(self):
        fs = self.cfg['variants'][0]['fields']
        sz = max(self.UT[f['ty']][1] for f in fs)
        al = max(self.UT[f['ty']][2] for f in fs)
        return (sz + al - 1) // al * al

    def padded(self):
        """repr "C": no full-size `raw` member, so the bytes beyond the largest member are padding"""
        return self.opts.get('repr', 'none') == 'C'

    def covered(self):
        fs = self.cfg['variants'][0]['fields']
        return self.usize() if not self.padded() else max(self.UT[f['ty']][1] for f in fs)

    def item(self, derive=True):
        fs = self.cfg['variants'][0]['fields']
        body = ', '.join('f%d: %s' % (i, self.UT[f['ty']][0]) for i, f in enumerate(fs, 1))
        if self.padded():
            return '%s%s #[repr(C)] union %s { %s }' % ('#[derive(Educe)] ' if derive else '', self.type_attr(), self.name, body)
        return '%s%s union %s { %s, raw: [u8; %d] }' % ('#[derive(Educe)] ' if derive else '', self.type_attr(), self.name, body, self.usize())

    def case_impl(self):
        return 'impl UCase for %s { const ID: usize = %d; }' % (self.name, self.idx)


def c20(ctx):
    quick = ctx.tier == 'quick'
    runs = [{'module': 'MC_C20', 'cfg': 'MC_C20_quick.cfg', 'workers': 8}] if quick else \
           [{'module': 'MC_C20', 'cfg': 'MC_C20_thorough.cfg', 'workers': 12, 'timeout': 3000, 'heap': '16g'}]

    def calls(r):
        return ['run_union::<%s, _>(&mut out, "%s", %d);' % (r.name, r.name, r.covered())]

    r_property(ctx, runs, ['DoSeal', 'DoBegin', 'Step', 'Return'], UnionRender, calls, [0, 1],
               COMMON_ASSUMPTIONS + ['union values are written as bytes into aligned storage and only seen through a reference; half of the unions carry a full-size `raw: [u8; size]` member, '
                                     'the others are `#[repr(C)]` with typed members only, so that the bytes beyond the largest member are padding'],
               'unions with 1..MaxFields fields of sizes/alignments {u8, u16, [u8;3], u32, [u16;4]} x Debug name {default, off, custom}, educing Debug/PartialEq/Eq/Hash/Clone/Copy '
               'behind `unsafe`; values = all byte patterns over {0,7,255} for sizes <= 2, five boundary patterns above; per value: Debug text in both modes, the recorded '
               'hasher feed against the feed of the byte slice itself, the bytes of the clone, == against every pattern; non-trivial = more than one field or a name setting')


# ---------------------------------------------------------------- expansion-level helpers
import xchan
import xpipe
import tlc as tlcmod


def model_check_tagged(ctx, runs, tag):
    """like rpipe.model_check but collects lines of another tag (SITES, PAIRS, ...)"""
    out = []
    states = transitions = 0
    cover = {}
    exhaustive = True
    mc_runs = []
    for r in runs:
        sim = r.get('simulate')
        res = tlcmod.run_mc(r['module'], r['cfg'], ctx.workdir, workers=r.get('workers', 8), timeout=r.get('timeout', 900),
                            simulate=sim, seed=ctx.seed if sim else None, heap=r.get('heap', '8g'), tags=(tag, 'CORPUS', 'SPELL'))
        ctx.info('TLC %s/%s: %s' % (r['module'], r['cfg'], res['stats']))
        if not res['ok']:
            raise ToolError('model checking of %s with %s failed (violated=%s):\n%s' % (r['module'], r['cfg'], res['violated'], '\n'.join(res['text'].split('\n')[-60:])))
        if sim:
            exhaustive = False
        states += res['stats'].get('distinct', 0)
        transitions += res['stats'].get('generated', 0)
        for k, v in res['coverage'].items():
            cover[k] = cover.get(k, 0) + v
        out += sorted(res['tagged'][tag], key=lambda x: json.dumps(x, sort_keys=True))      # (canonical order, as in rpipe.model_check)
        mc_runs.append({'module': r['module'], 'cfg': r['cfg'], 'simulate': sim, 'stats': res['stats'], 'emitted': len(res['tagged'][tag])})
    ctx.coverage['states'] = states
    ctx.coverage['transitions'] = transitions
    ctx.coverage['coverage_per_action'] = cover
    ctx.coverage['mc_runs'] = mc_runs
    ctx.coverage['exhaustive'] = exhaustive
    return out


class MultiRender(TypeRender):
    """multi-trait items for the expansion channel (never compiled: field types only need to parse)"""

    def type_default_expr(self):
        return 'todo!()'


X_ASSUMPTIONS = [
    'TLC 1.8 and the CommunityModules Json reader are trusted',
    'the renderer (lib/render.py) maps an abstract input to the tokens it denotes; its spellings come from spec/EduceSpell.tla',
    'in-process expansion runs the unchanged derive_input_handler under proc_macro2 fallback mode (harness/inproc, hook magiclen_educe_verif); '
    'observations that could depend on the token printer are confirmed through the real compiler before they are reported',
]


# ---------------------------------------------------------------- C14
def c14(ctx):
    quick = ctx.tier == 'quick'
    runs = [{'module': 'MC_C14', 'cfg': 'MC_C14_quick.cfg', 'workers': 8}] if quick else \
           [{'module': 'MC_C14', 'cfg': 'MC_C14_thorough.cfg', 'workers': 12, 'timeout': 3000, 'heap': '16g'}]
    recs = model_check_tagged(ctx, runs, 'SITES')
    exe = xchan.build(ctx)
    requests = []
    meta = {}
    info = {}
    n_groups = 0
    for ci, rec in enumerate(recs, 1):
        cfg = rec['cfg']
        sites = rec['sites']
        # generator echo (S6): the sites the specification lists are exactly the sites the renderer visits
        base = MultiRender(ci, cfg, 'C14', canonical=True)
        base_text = base.item(derive=False)
        visited = {(s, c) for (s, c, n) in base.sites}
        listed = {(s['site'], s['cls']) for s in sites}
        if visited != listed:
            raise ToolError('spelling sites disagree for configuration %d: spec-only %s, renderer-only %s\n%s'
                            % (ci, sorted(listed - visited), sorted(visited - listed), base_text))
        for s in sites:
            if s['n'] < 2:
                continue
            n_groups += 1
            g = 'c%d:%s' % (ci, s['site'])
            for m in range(1, s['n'] + 1):
                r = MultiRender(ci, cfg, 'C14', overrides={s['site']: m}, canonical=True)
                text = r.item(derive=False)
                rid = '%s#%d' % (g, m)
                requests.append({'id': rid, 'text': text})
                meta[rid] = {'mode': 'same', 'g': g, 'reset': m == 1}
                info[rid] = (ci, s, m, text)
        # one more group per configuration: the canonical rendering next to three renderings in which *every* site takes a
        # spelling of its own at once (what goes wrong only for a combination of spellings -- a negative hexadecimal rank
        # *followed by* another parameter -- never shows when one site varies at a time)
        if any(s['n'] >= 2 for s in sites):
            n_groups += 1
            g = 'c%d:*' % ci
            allsite = {'site': '*', 'cls': 'all sites at once', 'n': 4}
            for m in range(1, 5):
                if m == 1:
                    text = base_text
                else:
                    import render as _render
                    ov = {s['site']: 1 + _render.hpick(s['n'], ci, s['site'], 'mix', m) for s in sites if s['n'] >= 2}
                    text = MultiRender(ci, cfg, 'C14', overrides=ov, canonical=True).item(derive=False)
                rid = '%s#%d' % (g, m)
                requests.append({'id': rid, 'text': text})
                meta[rid] = {'mode': 'same', 'g': g, 'reset': m == 1}
                info[rid] = (ci, allsite, m, text)
    ctx.info('%d configurations, %d spelling groups, %d expansions' % (len(recs), n_groups, len(requests)))
    trace, raw = xpipe.run_requests(ctx, exe, requests, meta)
    res = xpipe.validate(ctx, trace)
    lines = rpipe.load_lines(trace, res['bad'])
    seen_groups = set()
    for ln in res['bad']:
        e = lines[ln]
        if e['g'] in seen_groups:
            continue
        seen_groups.add(e['g'])
        ci, s, m, text = info[e['id']]
        members = [(k, info['%s#%d' % (e['g'], k)][3]) for k in range(1, s['n'] + 1)]
        outs = {r['id']: r for r in raw if r['id'].startswith(e['g'] + '#')}
        ctx.violation({'kind': 'spelling-group', 'cfg': recs[ci - 1]['cfg'], 'site': s['site'], 'class': s['cls']},
                      {'what': 'members of one spelling group (same request, different spelling at one site) expanded differently or were refused',
                       'members': [{'member': k, 'text': t, 'outcome': outs['%s#%d' % (e['g'], k)]['outcome'],
                                    'err': outs['%s#%d' % (e['g'], k)].get('err'), 'out': outs['%s#%d' % (e['g'], k)].get('out')} for k, t in members]})
    ctx.coverage.update({
        'traces_validated_against_impl': res['n'] - len(res['bad']), 'trace_files': 1, 'trace_events': res['n'], 'trace_events_rejected': len(res['bad']),
        'programs': len(recs), 'evaluations': len(requests), 'distinct_nontrivial': n_groups,
        'rule': 'multi-trait struct/enum configurations with at most MaxDeviations non-default settings (t-way); for every spelling site the specification lists '
                '(EduceSpell classes: p = v / p(v), ident/path/int/predicate vs string literal, name/rename, expression/expr, Trait = X shorthands, ignore forms, '
                'one list vs several attributes, trait order, parameter order) one group with every member of the class, everything else canonical; plus one group per '
                'configuration in which every site is respelled at once (three mixes); '
                'distinct_nontrivial = number of groups with at least two members',
        'samples': [{'group': requests[0]['id'].split('#')[0], 'members': [r['text'] for r in requests[:4]]}] if requests else [],
    })
    ctx.assumptions += X_ASSUMPTIONS


# ---------------------------------------------------------------- C15
def items_of_trait(rec, t):
    """token strings of the impl items the handler of trait t is responsible for"""
    out = []
    for it in rec.get('items') or []:
        if it.get('trait') == t:
            out.append(it['tokens'])
        elif it.get('trait') is None and t == 'Default' and 'fn new' in (it.get('members') or []):
            out.append(it['tokens'])
    return out


def c15(ctx):
    quick = ctx.tier == 'quick'
    runs = [{'module': 'MC_C15', 'cfg': 'MC_C15_quick.cfg', 'workers': 8}] if quick else \
           [{'module': 'MC_C15', 'cfg': 'MC_C15_thorough.cfg', 'workers': 12, 'timeout': 3000, 'heap': '16g'}]
    recs = model_check_tagged(ctx, runs, 'PAIRS')
    exe = xchan.build(ctx)
    requests = []
    meta = {}
    info = {}
    n_pairs = 0
    for ci, rec in enumerate(recs, 1):
        cfg = rec['cfg']
        texts = []
        r1 = MultiRender(ci, cfg, 'C15', canonical=True, name='T')
        texts.append(('full-canonical', r1.item(derive=False)))
        r2 = MultiRender(ci, cfg, 'C15', canonical=False, name='T')
        r2.pool = None
        texts.append(('full-mixed-spelling', r2.item(derive=False)))
        for pr in rec['pairs']:
            t = pr['t']
            n_pairs += 1
            g = 'c%d:%s' % (ci, t)
            r3 = MultiRender(ci, pr['restricted'], 'C15', canonical=True, name='T')
            members = texts + [('restricted-to-%s' % t, r3.item(derive=False))]
            for k, (label, text) in enumerate(members, 1):
                rid = '%s#%d' % (g, k)
                requests.append({'id': rid, 'text': text})
                meta[rid] = {'mode': 'same', 'g': g, 'reset': k == 1, 't': t}
                info[rid] = (ci, t, label, text)
    ctx.info('%d configurations, %d (configuration, trait) pairs, %d expansions' % (len(recs), n_pairs, len(requests)))
    trace, raw = xpipe.run_requests(ctx, exe, requests, meta, project=lambda r, m: '\n'.join(items_of_trait(r, m['t'])))
    res = xpipe.validate(ctx, trace)
    lines = rpipe.load_lines(trace, res['bad'])
    rawmap = {r['id']: r for r in raw}
    seen = set()
    for ln in res['bad']:
        e = lines[ln]
        if e['g'] in seen:
            continue
        seen.add(e['g'])
        ci, t, label, text = info[e['id']]
        mem = []
        for k in (1, 2, 3):
            rid = '%s#%d' % (e['g'], k)
            mem.append({'which': info[rid][2], 'text': info[rid][3], 'outcome': rawmap[rid]['outcome'], 'err': rawmap[rid].get('err'),
                        'items_of_trait': items_of_trait(rawmap[rid], t)})
        ctx.violation({'kind': 'trait-dependence', 'cfg': recs[ci - 1]['cfg'], 'trait': t},
                      {'what': 'the impl generated for one trait differs when other traits (with attributes of their own) are present, or when their attributes are spelled/ordered differently',
                       'members': mem})
    ctx.coverage.update({
        'traces_validated_against_impl': res['n'] - len(res['bad']), 'trace_files': 1, 'trace_events': res['n'], 'trace_events_rejected': len(res['bad']),
        'programs': len(recs), 'evaluations': len(requests), 'distinct_nontrivial': n_pairs,
        'rule': 'multi-trait struct/enum configurations with at most MaxDeviations non-default settings (t-way) x every educed trait t; three expansions per pair: the full '
                'configuration written canonically, the full configuration with mixed spellings/orders/attribute splitting, and Restrict(cfg, t) (only t and its coupled '
                'partners educed, all other settings reset); the impl items of t must be token-identical; distinct_nontrivial = number of (configuration, trait) pairs',
        'samples': [{'pair': requests[0]['id'].split('#')[0], 'members': [r['text'] for r in requests[:3]]}] if requests else [],
    })
    ctx.assumptions += X_ASSUMPTIONS


# ---------------------------------------------------------------- C16
INTO_TYPES = ['u8', 'u16', 'u32', 'u64']
HANDLER_ORDER = ["Debug", "Clone", "Copy", "PartialEq", "Eq", "PartialOrd", "Ord", "Hash", "Default", "Deref", "DerefMut", "Into"]


def render_c16_input(inp, k):
    ts = [INTO_TYPES[i] for i, b in enumerate(inp['targets']) if b]
    others = [HANDLER_ORDER[i] for i, b in enumerate(inp['others']) if b]
    # the attribute order is varied with k; the expansion must not depend on anything but the input itself
    metas = others + ['Into(%s)' % t for t in ts]
    if k % 2 == 1:
        metas = list(reversed(metas))
    attr = '#[educe(%s)]' % ', '.join(metas)
    mark = []
    if 'Deref' in others:
        mark.append('Deref')
    if 'DerefMut' in others:
        mark.append('DerefMut')
    fields = '%sa: u8, b: u16, c: u32, d: u64' % ('#[educe(%s)] ' % ', '.join(mark) if mark else '')
    dv = '#[educe(Default)] ' if 'Default' in others else ''
    if inp['kind'] == 'struct':
        return '%s struct T { %s }' % (attr, fields)
    if 'PartialOrd' in others or 'Ord' in others:
        # the ordering impls mention the discriminant integer type: the two widths of the model
        return '%s enum T { %sV1 { %s } = 1, V2(%su8, u16, u32, u64) = %d }' % (attr, dv, fields, '#[educe(%s)] ' % ', '.join(mark) if mark else '', 2 if inp.get('width', 8) == 8 else 1000)
    return '%s enum T { %sV1 { %s }, V2(%su8, u16, u32, u64) }' % (attr, dv, fields, '#[educe(%s)] ' % ', '.join(mark) if mark else '')


def c16(ctx):
    quick = ctx.tier == 'quick'
    inputs = model_check_tagged(ctx, [{'module': 'MC_C16', 'cfg': 'MC_C16_quick.cfg', 'workers': 4}], 'INPUT')
    uniq = []
    seen = set()
    for i in inputs:
        key = json.dumps(i, sort_keys=True)
        if key not in seen:
            seen.add(key)
            uniq.append(i)
    st0 = dict(ctx.coverage)
    # the model's own regression test: iterating a hash map (any permutation) must be caught by TLC
    neg = tlcmod.run_mc('MC_C16', 'MC_C16_hashed.cfg', ctx.workdir, workers=2, timeout=300, tags=('INPUT',), heap='2g')
    if neg['violated'] != 'Deterministic':
        raise ToolError('MC_C16_hashed.cfg should violate Deterministic (regression test of the model), got: %s' % neg['violated'])
    sites = model_check_tagged(ctx, [{'module': 'MC_C14', 'cfg': 'MC_C14_quick.cfg' if quick else 'MC_C14_thorough.cfg', 'workers': 8, 'timeout': 3000}], 'SITES')
    ctx.coverage['states'] += st0['states']
    ctx.coverage['transitions'] += st0['transitions']
    ctx.coverage['mc_runs'] = st0['mc_runs'] + ctx.coverage['mc_runs']
    neg2 = tlcmod.run_mc('MC_C16', 'MC_C16_memo.cfg', ctx.workdir, workers=2, timeout=300, tags=('INPUT',), heap='2g')
    if neg2['violated'] != 'Deterministic':
        raise ToolError('MC_C16_memo.cfg should violate Deterministic (regression test of the model), got: %s' % neg2['violated'])
    ctx.coverage['model_regression'] = ('MC_C16_hashed.cfg (hash-map iteration order, two Into targets) and MC_C16_memo.cfg (per-process cache keyed by the type name) '
                                        'violate Deterministic as expected')
    # every trait family's run-time corpus, all rendered under the same type name `T`: what one expansion leaves behind
    # in the process (if anything) is most likely keyed by a name, and a neighbour with the same name and another body
    # is the history that exposes it
    fams = [('MC_C03', TypeRender), ('MC_C04', LayoutRender), ('MC_C06', DebugRender), ('MC_C10', TypeRender)]
    if not quick:
        fams += [('MC_C02', TypeRender), ('MC_C05', TypeRender), ('MC_C07', TypeRender), ('MC_C08', DefaultRender), ('MC_C09', DerefRender), ('MC_C20', UnionRender)]
    fam_items = []
    st1 = dict(ctx.coverage)
    def family(mc):
        module, cls = mc
        cfgname = module + '_corpus.cfg'     # configurations only: the run machine is not explored here
        if module == 'MC_C10':
            # the Into resolution is where several candidates compete (marked field, sole field, fields of the target's
            # type): the three-way interactions of the thorough instance, restricted to variants with at least two
            # fields of a target's type
            cfgname = 'MC_C10_corpus3.cfg'
        sub = SubCtx(ctx, 'fam_' + module)
        fc = rpipe.model_check(sub, [{'module': module, 'cfg': cfgname, 'workers': 4, 'timeout': 1800}], ['DoSeal'])
        if module == 'MC_C10':
            fc = [c for c in fc if any(sum(1 for f in v['fields'] if f['ty'] in ('A', 'B')) >= 2 for v in c['variants'])]
        cap = (1500 if module == 'MC_C10' else 500) if quick else 5000
        if len(fc) > cap:
            step = len(fc) / float(cap)
            fc = [fc[int(i * step)] for i in range(cap)]
        items = [('%s.%d' % (module[3:], ci), cls(ci, c, 'C16', name='T').item(derive=False)) for ci, c in enumerate(fc, 1)]
        return items, sub.coverage

    from concurrent.futures import ThreadPoolExecutor as _TPE
    with _TPE(max_workers=4) as ex:
        for items_, cov in ex.map(family, fams):
            fam_items += items_
            st1['states'] += cov['states']
            st1['transitions'] += cov['transitions']
            st1['mc_runs'] = st1['mc_runs'] + cov['mc_runs']
    ctx.coverage.update({k: st1[k] for k in ('states', 'transitions', 'mc_runs')})
    exe = xchan.build(ctx)
    texts = []
    for n, inp in enumerate(uniq):
        for k in (0, 1):
            texts.append(('into%d.%d' % (n, k), render_c16_input(inp, k)))
    for ci, rec in enumerate(sites, 1):
        r = MultiRender(ci, rec['cfg'], 'C16', canonical=False, name='T')
        texts.append(('multi%d' % ci, r.item(derive=False)))
    texts += fam_items
    # items that hold both the first-choice name of a generated generic and its fallback
    texts += fallback_pair_items(exe)
    meta = {}
    for tid, text in texts:
        meta[tid] = {'mode': 'same', 'g': tid}
    base = [{'id': tid, 'text': text} for tid, text in texts]
    nproc = 4 if quick else 16
    passes = [[dict(r, reps=3) for r in base]]
    for p in range(nproc):
        order = list(base)
        if p % 2 == 1:
            order.reverse()
        rot = (p * 37) % max(1, len(order))
        passes.append(order[rot:] + order[:rot])
    from concurrent.futures import ThreadPoolExecutor
    with ThreadPoolExecutor(max_workers=min(8, len(passes))) as ex:
        results = list(ex.map(lambda reqs: xchan.expand1(exe, reqs), passes))
    # the reference history: none at all -- every input alone in a freshly spawned process
    t_f = time.time()
    results.append(xchan.expand_fresh(exe, base))
    ctx.info('%d inputs expanded alone in fresh processes, %.1fs' % (len(base), time.time() - t_f))
    trace = os.path.join(ctx.workdir, 'xtrace.ndjson')
    raw = []
    # the trace is written group by group (all observations of one input together, the history-free one first, which
    # is the one the trace specification learns); `reset` lets the specification forget finished groups
    by_id = {}
    fresh_pi = len(results) - 1
    for pi, recs in enumerate(results):
        for r in recs:
            raw.append((pi, r))
            by_id.setdefault(r['id'], []).append((0 if pi == fresh_pi else 1, pi, r))
    with open(trace, 'w') as f:
        for tid, _ in texts:
            first = True
            for _k, pi, r in sorted(by_id.get(tid, []), key=lambda x: (x[0], x[1], x[2].get('rep', 0))):
                e = {'ev': 'expand', 'id': r['id'], 'proc': pi, 'rep': r.get('rep', 0), 'outcome': r['outcome'],
                     'out': xpipe.digest(r['out']) if r.get('out') is not None else '', 'mode': 'same', 'g': r['id'], 'expect': '', 'reset': first}
                first = False
                f.write(json.dumps(e, separators=(',', ':')) + '\n')
    res = xpipe.validate(ctx, trace)
    lines = rpipe.load_lines(trace, res['bad'])
    textmap = dict(texts)
    done = set()
    for ln in res['bad']:
        e = lines[ln]
        if e['id'] in done:
            continue
        done.add(e['id'])
        outs = [{'proc': pi, 'rep': r.get('rep', 0), 'outcome': r['outcome'], 'out': r.get('out')} for pi, r in raw if r['id'] == e['id']]
        distinct = sorted({o['out'] or o['outcome'] for o in outs})
        ctx.violation({'kind': 'nondeterministic-expansion', 'input': textmap[e['id']]},
                      {'what': 'the same input expanded to different token streams (or was not accepted) across repetitions / processes',
                       'input': textmap[e['id']], 'distinct_outputs': distinct[:6], 'observations': len(outs)})
    ctx.coverage.update({
        'traces_validated_against_impl': res['n'] - len(res['bad']), 'trace_files': 1, 'trace_events': res['n'], 'trace_events_rejected': len(res['bad']),
        'programs': len(texts), 'evaluations': res['n'], 'distinct_nontrivial': len(texts),
        'processes': nproc + 1 + len(base), 'repetitions_in_process': 3,
        'rule': 'inputs: every subset of four Into targets x {struct, enum} x {no other trait, Debug+Clone} in two attribute orders (from MC_C16), plus every multi-trait '
                'configuration of the C14 model with mixed spellings, plus the run-time corpora of the trait families (ordering incl. explicit discriminants and reprs, Debug, Into; '
                'all ten families in the thorough tier) -- every input is named `T`, so neighbours share the name and differ in the body; each input expanded 3 times in one process and once in each of several freshly spawned processes '
                '(different hash seeds, different prior history: forward / reversed / rotated order) and once alone in a fresh process of its own (no history); all token streams of one input must be equal; '
                'distinct_nontrivial = number of distinct inputs',
        'samples': [{'input': texts[5][1]}, {'input': texts[-1][1]}],
    })
    ctx.assumptions += X_ASSUMPTIONS


# ---------------------------------------------------------------- C13 / C17: injected metas
VALTEXT = {'bool_t': 'true', 'bool_f': 'false', 'ident': 'zz', 'str_ident': '"zz"', 'str_empty': '""', 'int': '3', 'negint': '-3',
           'str_int': '"3"', 'str_negint': '"-3"', 'path2': 'aa::bb', 'str_path2': '"aa::bb"', 'float': '1.5', 'star': '*',
           'preds': 'T: Copy', 'str_preds': '"T: Copy"', 'call': 'ff(1)', 'char': "'c'",
           'hexint': '0x1F', 'sufint': '3u8', 'bigint': '99999999999999999999999', 'rawstr_ident': 'r"zz"', 'bytestr': 'b"zz"', 'str_ws_ident': '" zz "',
           'str_2idents': '"a b"', 'str_hexint': '"0x1F"', 'str_plusint': '"+3"', 'paren_int': '(3)', 'rawident': 'r#zz', 'str_rawident': '"r#zz"', 'str_kw': '"type"', 'macro_call': 'vec![1]'}
TRAIT_ORDER = ["Debug", "Clone", "Copy", "PartialEq", "Eq", "PartialOrd", "Ord", "Hash", "Default", "Deref", "DerefMut", "Into"]


def param_text(p):
    if p['form'] == 'path':
        return p['name']
    v = VALTEXT[p['val']]
    return '%s = %s' % (p['name'], v) if p['form'] == 'nv' else '%s(%s)' % (p['name'], v)


INTO_TY_TEXT = {'req': 'u8', 'other': 'zz', 'path2': 'aa::bb', 'int': '3', 'str_ident': '"zz"', 'star': '*', 'none': ''}


def meta_text(m):
    t = m['t']
    if t == 'Into' and m.get('ty', '-') != '-':
        items = [INTO_TY_TEXT[m['ty']]] if INTO_TY_TEXT[m['ty']] else []
        items += [param_text(p) for p in m['params']]
        if m['uns'] == 'first':
            items = ['unsafe'] + items
        return 'Into(%s)' % ', '.join(items)
    if m['form'] == 'path':
        return t
    if m['form'] == 'nv':
        return '%s = %s' % (t, VALTEXT[m['val']])
    ps = [param_text(p) for p in m['params']]
    if m['uns'] == 'first':
        ps = ['unsafe'] + ps
    elif m['uns'] == 'later':
        ps = ps[:1] + ['unsafe'] + ps[1:]
    return '%s(%s)' % (t, ', '.join(ps))


def injected_item(rec):
    ctx, m = rec['ctx'], rec['meta']
    educed = [t for t in TRAIT_ORDER if rec['educed'].get(t)]
    kind, base, pos = ctx['kind'], ctx['base'], ctx['pos']
    inj = meta_text(m)

    def type_meta(t):
        if kind == 'union' and t in ('Debug', 'PartialEq', 'Hash'):
            return '%s(unsafe)' % t
        if t == 'Into':
            return 'Into(u8)'
        if t == 'Default' and base.endswith('_texpr'):
            return 'Default(expression = %s)' % ('T { a: 0, b: 0 }' if kind == 'struct' else 'T::V1 { a: 0, b: 0 }')
        return t

    if pos == 'type':
        metas = [inj if t == m['t'] else type_meta(t) for t in educed]
        if m['t'] not in educed:
            metas.append(inj)
        fa = va = ''
    else:
        metas = [type_meta(t) for t in educed]
        fa = '#[educe(%s)] ' % inj if pos == 'field' else ''
        va = '#[educe(%s)] ' % inj if pos == 'variant' else ''
    head = '#[educe(%s)] ' % ', '.join(metas)
    if base == 'struct_named' or base == 'struct_named_texpr':
        return '%sstruct T { %sa: u8, b: u8 }' % (head, fa)
    if base == 'struct_tuple':
        return '%sstruct T(%su8, u8);' % (head, fa)
    if base == 'struct1_tuple':
        return '%sstruct T(%su8);' % (head, fa)
    if base == 'struct1_named':
        return '%sstruct T { %sa: u8 }' % (head, fa)
    if base == 'enum1_named1':
        return '%senum T { %sV1 { %sa: u8 } }' % (head, va, fa)
    if base in ('enum1_named', 'enum1_named_texpr'):
        return '%senum T { %sV1 { %sa: u8, b: u8 } }' % (head, va, fa)
    if base == 'enum1_tuple':
        return '%senum T { %sV1(%su8, u8) }' % (head, va, fa)
    if base == 'enum1_tuple1':
        return '%senum T { %sV1(%su8) }' % (head, va, fa)
    if base == 'enum2_nobuild':
        return '%senum T { %sV1 { %sa: u8, b: u8 }, #[educe(Default)] V2 }' % (head, va, fa)
    if base == 'union1':
        return '%sunion T { %sa: u8 }' % (head, fa)
    if base == 'into1_struct':
        return '%sstruct T(%su8);' % (head, fa)
    if base == 'into1_enum':
        return '%senum T { %sV1(%su8) }' % (head, va, fa)
    raise ToolError('unknown base %s' % base)


def raw_ident_variant(text):
    """the same item with raw identifiers as field / variant names (names must not matter to the scanner)"""
    import re as _re
    t = text.replace('T { a: 0, b: 0 }', 'T { r#type: 0, r#fn: 0 }').replace('T::V1 { a: 0, b: 0 }', 'T::r#Match { r#type: 0, r#fn: 0 }')
    t = _re.sub(r'\ba: u8', 'r#type: u8', t)
    t = _re.sub(r'\bb: u8', 'r#fn: u8', t)
    t = _re.sub(r'\bV1\b', 'r#Match', t)
    return t


def kconfirm(ctx, items):
    """Channel K: compile items with the real proc macro; returns per item dict(panicked, educe_errors, other_errors)."""
    import cases
    lines = ['#![allow(dead_code, unused)]', 'use educe::Educe;']
    line_of = {}
    for i, text in enumerate(items):
        lines.append('mod m%d { use educe::Educe; #[derive(Educe)] %s }' % (i, text))
        line_of[len(lines)] = i
    lines.append('fn main() {}')
    d = cases.write_crate('kconf_' + ctx.prop, '\n'.join(lines) + '\n')
    ok, diags, exe, wall, stderr = cases.cargo_build(d)
    out = [{'panicked': False, 'errors': []} for _ in items]
    for dmsg in diags:
        msg = dmsg.get('message', {})
        if msg.get('level') != 'error':
            continue
        for sp in msg.get('spans', []):
            i = line_of.get(sp.get('line_start'))
            if i is not None:
                text = msg.get('message', '')
                out[i]['errors'].append(text[:300])
                if 'panicked' in text:
                    out[i]['panicked'] = True
                break
    return out


def injection_records(ctx, quick):
    runs = [{'module': 'MC_C13', 'cfg': 'MC_C13_quick.cfg', 'workers': 8}]
    if not quick:
        runs.append({'module': 'MC_C13', 'cfg': 'MC_C13_thorough.cfg', 'workers': 12, 'timeout': 3000, 'heap': '16g'})
    recs = model_check_tagged(ctx, runs, 'INJ')
    seen = set()
    out = []
    for r in recs:
        k = json.dumps(r, sort_keys=True)
        if k not in seen:
            seen.add(k)
            out.append(r)
    return out


def observed_err_class(msg):
    m = msg or ''
    if 'unsupported trait' in m:
        return 'unsupported'
    if 'is not used' in m:
        return 'unused'
    if 'cannot be placed here' in m:
        return 'place'
    if 'incorrect format' in m:
        return 'format'
    if 'trying to reset' in m:
        return 'reset'
    if 'not precise' in m or 'uninitialized memory' in m or 'does not support to a union' in m:
        return 'union'
    return 'syn'


def c13(ctx):
    quick = ctx.tier == 'quick'
    recs = injection_records(ctx, quick)
    exe = xchan.build(ctx)
    requests = []
    meta = {}
    for i, r in enumerate(recs):
        rid = 'i%d' % i
        requests.append({'id': rid, 'text': injected_item(r)})
        meta[rid] = {'mode': 'expect', 'expect': r['verdict']}
    n_bad = sum(1 for r in recs if r['verdict'] == 'err')
    ctx.info('%d injected inputs (%d must be refused, %d must be accepted)' % (len(recs), n_bad, len(recs) - n_bad))
    # accepted inputs again with raw identifiers as field / variant names
    for i, r in enumerate(recs):
        if r['verdict'] == 'ok':
            rid = 'r%d' % i
            requests.append({'id': rid, 'text': raw_ident_variant(injected_item(r))})
            meta[rid] = {'mode': 'expect', 'expect': 'ok'}
    neg = negative_corpora(ctx, quick)
    # the same Into target twice, for every way of writing a type (EduceTypes, context "into_dup")
    st_t = dict(ctx.coverage)
    tyrecs = model_check_tagged(ctx, [{'module': 'EduceTypes', 'cfg': 'MC_Types_quick.cfg' if quick else 'MC_Types_thorough.cfg', 'workers': 4, 'timeout': 1800}], 'TYEXPR')
    for k_ in ('states', 'transitions'):
        ctx.coverage[k_] = ctx.coverage.get(k_, 0) + st_t.get(k_, 0)
    ctx.coverage['mc_runs'] = st_t.get('mc_runs', []) + ctx.coverage.get('mc_runs', [])
    for r_ in tyrecs:
        if r_['ctx'] != 'into_dup' or len(r_['wraps']) > 1:
            continue
        ty = r_['ty']
        neg.append(("#[educe(Into(%s), Into(%s))] struct T<'a, T: Tr>(u8, &'a T);" % (ty, ty), 'the same Into target twice on the type', {'dup_target': ty, 'pos': 'type'}))
        neg.append(("#[educe(Into(%s), Into(%s, bound = false))] enum T { V1(u8) }" % (ty, ty), 'the same Into target twice on the type', {'dup_target': ty, 'pos': 'type2'}))
        neg.append(("#[educe(Into(%s))] struct T<'a, T: Tr> { #[educe(Into(%s), Into(%s))] f: u8, g: &'a T }" % (ty, ty, ty), 'the same Into target twice on a field', {'dup_target': ty, 'pos': 'field'}))
    neg += model_negatives(ctx, quick)
    for j, (text, why, cfg) in enumerate(neg):
        rid = 'n%d' % j
        requests.append({'id': rid, 'text': text})
        meta[rid] = {'mode': 'expect', 'expect': 'err'}
    trace, raw = xpipe.run_requests(ctx, exe, requests, meta)
    res = xpipe.validate(ctx, trace)
    lines = rpipe.load_lines(trace, res['bad'])
    rawmap = {r['id']: r for r in raw}
    textmap = {r['id']: r['text'] for r in requests}
    for ln in res['bad']:
        e = lines[ln]
        rid = e['id']
        if rid.startswith('i') or rid.startswith('r'):
            rec = recs[int(rid[1:])]
            key = {'kind': 'injected-meta', 'ctx': rec['ctx'], 'educed': sorted(t for t, b in rec['educed'].items() if b), 'meta': rec['meta']}
            what = ('the scanner specification (EduceScan.Verdict) says this attribute must be %s here, the macro %s'
                    % ('refused' if rec['verdict'] == 'err' else 'accepted', {'ok': 'accepted it silently', 'err': 'refused it'}.get(e['outcome'], e['outcome'])))
        else:
            text, why, cfg = neg[int(rid[1:])]
            key = {'kind': 'structural', 'class': why, 'cfg': cfg}
            what = 'a contradictory / ambiguous / misplaced construct (%s) was %s instead of being refused with a diagnostic' % (why, e['outcome'])
        ctx.violation(key, {'what': what, 'input': textmap[rid], 'outcome': rawmap[rid]['outcome'], 'err': rawmap[rid].get('err'), 'out': rawmap[rid].get('out')})
    # drift (never a verdict): does the diagnostic that wins belong to the class the scanner model predicts?
    drift = {}
    n_cls = 0
    for i, r in enumerate(recs):
        ec = r.get('errclass', '-')
        if ec in ('-', 'other'):
            continue
        ob = rawmap['i%d' % i]
        if ob['outcome'] != 'err':
            continue
        n_cls += 1
        oc = observed_err_class(ob.get('err'))
        if oc != ec:
            drift.setdefault('%s->%s' % (ec, oc), []).append(textmap['i%d' % i])
    ctx.coverage['error_class_predictions'] = n_cls
    ctx.coverage['error_class_drift'] = {k: {'count': len(v), 'example': v[0]} for k, v in drift.items()}
    for k, v in drift.items():
        ctx.note('drift: predicted/observed diagnostic class %s for %d inputs, e.g. %s' % (k, len(v), v[0][:160]))
    ctx.coverage.update({
        'traces_validated_against_impl': res['n'] - len(res['bad']), 'trace_files': 1, 'trace_events': res['n'], 'trace_events_rejected': len(res['bad']),
        'programs': len(requests), 'evaluations': len(requests), 'distinct_nontrivial': n_bad + len(neg),
        'structural_negative_inputs': len(neg),
        'rule': 'every (context, meta) pair of the scanner specification within the bounds of the MC_C13 cfg (contexts = kind x position x educed set x shown-with-key/'
                'positionally x built/not built; metas = bare, Trait = v for every value kind, empty list, every parameter name x form x value kind, canonical parameter '
                'pairs incl. duplicates and aliases, unsafe first/later, unknown trait), injected into a neutral base item; plus structural negatives emitted by the '
                'per-trait models (rank clashes, missing/duplicate designations, unit variants, unprintable Debug shapes, duplicate traits, unions); '
                'distinct_nontrivial = number of inputs that must be refused',
        'samples': [{'input': requests[7]['text'], 'expected': meta[requests[7]['id']]['expect']},
                    {'input': requests[-1]['text'], 'expected': 'err'}],
    })
    ctx.assumptions += X_ASSUMPTIONS


def model_negatives(ctx, quick):
    """refused configurations enumerated by the per-trait models (SealBad / NEG lines): (text, class, cfg)"""
    neg = []
    st = dict(ctx.coverage)
    neg_sources = [('MC_C06', DebugRender, 'nothing to print / rename on a positional field'),
                   ('MC_C08', DefaultRender, 'default designation missing, duplicated or misplaced'),
                   ('MC_C09', TypeRender, 'Deref / DerefMut designation missing or duplicated'),
                   ('MC_C10', TypeRender, 'Into designation missing or ambiguous')]
    neg_sources.append(('MC_C03:edge', TypeRender, 'explicit rank equal to another field\'s implicit rank (isize::MIN + position)'))
    if not quick:
        neg_sources.append(('MC_C03', TypeRender, 'rank given twice among compared fields'))
    n_model_neg = 0
    for module, cls, why in neg_sources:
        cfgname = module + '_corpus.cfg'
        if ':' in module:
            module, variant = module.split(':')
            cfgname = '%s_%s_corpus.cfg' % (module, variant)
        negs = model_check_tagged(ctx, [{'module': module, 'cfg': cfgname, 'workers': 8}], 'NEG')
        for k_ in ('states', 'transitions'):
            st[k_] = st.get(k_, 0) + ctx.coverage[k_]
        st['mc_runs'] = st.get('mc_runs', []) + ctx.coverage['mc_runs']
        for k, c in enumerate(negs):
            r = cls(k + 1, c, 'C13neg', name='T')
            neg.append((r.item(derive=False), why + ' (model-enumerated)', c))
            n_model_neg += 1
    ctx.coverage['states'] = st['states']
    ctx.coverage['transitions'] = st['transitions']
    ctx.coverage['mc_runs'] = st['mc_runs']
    ctx.coverage['model_enumerated_negatives'] = n_model_neg
    return neg


def negative_corpora(ctx, quick):
    """structural Bad classes (Appendix B): hand-listed families generated over positions; each entry (text, class, cfg)"""
    out = []

    def add(text, why):
        out.append((text, why, {'text': text}))
    P = ['a', 'b', 'c']
    # a trait given twice on the type / one variant / one field (incl. synonym pairs)
    for t in ['Debug', 'Clone', 'PartialEq', 'Hash', 'Default', 'Ord']:
        add('#[educe(%s, %s)] struct T { a: u8 }' % (t, t), 'trait twice on the type')
        add('#[educe(%s)] #[educe(%s)] struct T { a: u8 }' % (t, t), 'trait twice on the type (two attributes)')
    for t, m in [('Debug', 'Debug(ignore)'), ('PartialEq', 'PartialEq(ignore)'), ('Hash', 'Hash(ignore)'), ('Clone', 'Clone(method(f))')]:
        for i in range(3):
            fs = ['u8', 'u8', 'u8']
            fs[i] = '#[educe(%s, %s)] u8' % (m, m)
            add('#[educe(%s)] struct T(%s);' % (t, ', '.join(fs)), 'trait twice on one field')
            fs[i] = '#[educe(%s)] #[educe(%s)] u8' % (m, m)
            add('#[educe(%s)] enum T { V1, V2(%s) }' % (t, ', '.join(fs)), 'trait twice on one field (two attributes)')
    add('#[educe(PartialEq, Eq)] struct T { #[educe(PartialEq(ignore), Eq(ignore))] a: u8 }', 'synonym pair on one field')
    add('#[educe(PartialEq, Eq, PartialOrd, Ord)] struct T { #[educe(Ord(ignore), PartialOrd(ignore))] a: u8 }', 'synonym pair on one field')
    add('#[educe(Debug)] enum T { #[educe(Debug(name = A), Debug(name = B))] V1(u8) }', 'trait twice on one variant')
    # rank given twice among compared fields (every pair of positions, struct / named variant / tuple variant, Ord and PartialOrd)
    for tr in ['PartialOrd', 'Ord']:
        educed = 'PartialEq, PartialOrd' if tr == 'PartialOrd' else 'PartialEq, Eq, PartialOrd, Ord'
        for i in range(3):
            for j in range(i + 1, 3):
                for sp in ['rank = 1', 'rank(1)', 'rank = "1"']:
                    fs = ['u8', 'u8', 'u8']
                    fs[i] = '#[educe(%s(rank = 1))] u8' % tr
                    fs[j] = '#[educe(%s(%s))] u8' % (tr, sp)
                    add('#[educe(%s)] struct T(%s);' % (educed, ', '.join(fs)), 'rank twice')
                    add('#[educe(%s)] enum T { V0, V1(%s) }' % (educed, ', '.join(fs)), 'rank twice')
                    ns = ['%s: %s' % (P[k], f.replace(' u8', ' u8')) for k, f in enumerate(fs)]
                    ns = [('%s %s: u8' % (f[:-3].strip(), P[k])).strip() if f != 'u8' else '%s: u8' % P[k] for k, f in enumerate(fs)]
                    add('#[educe(%s)] enum T { V1 { %s }, V0 }' % (educed, ', '.join(ns)), 'rank twice')
    # Into target twice
    add('#[educe(Into(u8), Into(u8))] struct T { a: u8 }', 'Into target twice')
    add('#[educe(Into(u8))] struct T { #[educe(Into(u8), Into(u8))] a: u8, b: u8 }', 'Into target twice on a field')
    # default variant / union field missing or duplicated
    for n in (2, 3):
        vs = ['V%d' % k for k in range(n)]
        add('#[educe(Default)] enum T { %s }' % ', '.join(vs), 'default variant missing')
        for i in range(n):
            for j in range(i + 1, n):
                ws = list(vs)
                ws[i] = '#[educe(Default)] ' + ws[i]
                ws[j] = '#[educe(Default)] ' + ws[j]
                add('#[educe(Default)] enum T { %s }' % ', '.join(ws), 'default variant duplicated')
    add('#[educe(Default)] union T { a: u8, b: u16 }', 'default union field missing')
    add('#[educe(Default)] union T { #[educe(Default)] a: u8, #[educe(Default)] b: u16 }', 'default union field duplicated')
    add('#[educe(Default)] union T { #[educe(Default = 1)] a: u8, #[educe(Default)] b: u16 }', 'default union field duplicated')
    # Deref / DerefMut / Into field missing or duplicated among several
    for tr in ['Deref', 'DerefMut']:
        educed = 'Deref' if tr == 'Deref' else 'Deref, DerefMut'
        pre = '#[educe(Deref)] ' if tr == 'DerefMut' else ''
        add('#[educe(%s)] struct T { %sa: u8, b: u8 }' % (educed, pre), '%s field missing' % tr)
        add('#[educe(%s)] struct T(%su8, u8, u8);' % (educed, pre), '%s field missing' % tr)
        add('#[educe(%s)] enum T { V1(%su8, u8), V2(u8) }' % (educed, pre), '%s field missing' % tr)
        for i in range(3):
            for j in range(i + 1, 3):
                fs = ['u8', 'u8', 'u8']
                fs[i] = '#[educe(%s)] u8' % tr
                fs[j] = '#[educe(%s)] u8' % tr
                if tr == 'DerefMut':
                    fs[0] = '#[educe(Deref)] ' + fs[0]
                add('#[educe(%s)] struct T(%s);' % (educed, ', '.join(fs)), '%s field duplicated' % tr)
                add('#[educe(%s)] enum T { V1(u8), V2(%s) }' % (educed, ', '.join(fs)), '%s field duplicated' % tr)
        add('#[educe(%s)] enum T { V1(u8), V2 }' % educed, 'unit variant under %s' % tr)
        add('#[educe(%s)] union T { a: u8 }' % educed, 'union under %s' % tr)
    add('#[educe(Into(u8))] struct T { a: u16, b: u16 }', 'Into field missing')
    add('#[educe(Into(u8))] struct T { a: u8, b: u8 }', 'Into field ambiguous (two same-typed candidates)')
    add('#[educe(Into(u8))] struct T(u8, u8, u8);', 'Into field ambiguous (three same-typed candidates)')
    add('#[educe(Into(u8))] enum T { V1(u8), V2(u8, u8, u8) }', 'Into field ambiguous (three same-typed candidates)')
    add('#[educe(Into(u8))] enum T { V1(u8), V2 { a: u8, b: u8, c: u8 } }', 'Into field ambiguous (three same-typed candidates)')
    add('#[educe(Into(u8))] enum T { V1(u8), V2(u8, u16, u8, u16, u8) }', 'Into field ambiguous (three same-typed candidates)')
    add('#[educe(Into(u8))] struct T { #[educe(Into(u8))] a: u16, #[educe(Into(u8))] b: u16 }', 'Into field duplicated')
    add('#[educe(Into(u8))] struct T { #[educe(Into(u16))] a: u16, b: u8 }', 'Into marker for an unrequested target')
    add('#[educe(Into(u8))] enum T { V1(u8), V2 }', 'unit variant under Into')
    add('#[educe(Into(u8))] union T { a: u8 }', 'union under Into')
    for tr in ['PartialOrd', 'Ord']:
        add('#[educe(%s)] union T { a: u8 }' % tr, 'union under %s' % tr)
    # attribute for a trait not educed / unknown trait, at every position
    for where in ['#[educe(Hash(ignore))] ', '#[educe(Bogus)] ', '#[educe(Debug::x)] ']:
        add('#[educe(Debug)] struct T { %sa: u8, b: u8 }' % where, 'trait not educed / unknown on a field')
        add('#[educe(Debug)] struct T { a: u8, %sb: u8 }' % where, 'trait not educed / unknown on a field')
        add('#[educe(Debug)] enum T { V0, %sV1(u8) }' % where, 'trait not educed / unknown on a variant')
        add('#[educe(Debug)] enum T { V0, V1(u8, %su8) }' % where, 'trait not educed / unknown on a field')
        add('#[educe(Debug(unsafe))] union T { a: u8, %sb: u8 }' % where, 'trait not educed / unknown on a union field')
    add('#[educe(Bogus)] struct T;', 'unknown trait on the type')
    add('#[educe] struct T;', 'educe attribute that is not a list')
    add('#[educe = "Debug"] struct T;', 'educe attribute that is not a list')
    add('#[educe()] struct T;', 'nothing educed')
    # unions without unsafe / unsafe not first
    for tr in ['Debug', 'PartialEq', 'Hash']:
        add('#[educe(%s)] union T { a: u8 }' % tr, 'union without unsafe')
        add('#[educe(%s())] union T { a: u8 }' % tr, 'union without unsafe')
    add('#[educe(Debug(name = X))] union T { a: u8 }', 'union without unsafe')
    add('#[educe(Debug(name = X, unsafe))] union T { a: u8 }', 'unsafe not first')
    # Debug with nothing to print
    add('#[educe(Debug(name = false))] struct T;', 'Debug of a unit struct without a name')
    add('#[educe(Debug(name = false))] struct T { #[educe(Debug(ignore))] a: u8 }', 'Debug with every field ignored and no name')
    add('#[educe(Debug)] enum T { #[educe(Debug(name = false))] V1 }', 'Debug of a unit variant without a name')
    add('#[educe(Debug)] enum T { V0(u8), #[educe(Debug(name = false))] V1 }', 'Debug of a unit variant without a name')
    add('#[educe(Debug)] enum T { #[educe(Debug(name = false))] V1(#[educe(Debug = false)] u8) }', 'Debug with every field ignored and no name')
    add('#[educe(Debug)] enum T {}', 'Debug of an empty enum without a name')
    # parameters the trait does not accept at that position
    add('#[educe(Debug)] struct T(#[educe(Debug(name = x))] u8);', 'name on a positionally shown field')
    add('#[educe(Debug(named_field = false))] struct T { #[educe(Debug(name = x))] a: u8 }', 'name on a positionally shown field')
    add('#[educe(Debug)] enum T { #[educe(Debug(named_field = false))] V1 { #[educe(Debug(name = x))] a: u8 } }', 'name on a positionally shown field')
    add('#[educe(Debug(unsafe))] union T { #[educe(Debug(method(f)))] a: u8 }', 'method on a union field')
    add('#[educe(Clone)] enum T<X> { #[educe(Clone(bound(X: Clone)))] V1(X) }', 'bound on a variant')
    add('#[educe(Clone, Copy)] enum T<X> { #[educe(Copy(bound(X: Copy)))] V1(X) }', 'bound on a variant')
    add('#[educe(Clone, Copy)] struct T { #[educe(Copy(whatever = 3))] a: u8 }', 'unknown parameter')
    return out


# ---------------------------------------------------------------- C17
TYEXPR_SETS = [('Debug, Clone, PartialEq, Eq, PartialOrd, Ord, Hash, Default', '', ''),
               ('Copy, Clone, Deref, DerefMut, Into(u8)', '#[educe(Deref, DerefMut)] ', '#[educe(Into(u8))] ')]


def type_expression_inputs(ctx, quick):
    """inputs from the type-expression grammar (spec/EduceTypes.tla): every type expression in every position where the
    macro reads a type, under two trait sets"""
    st = dict(ctx.coverage)
    recs = model_check_tagged(ctx, [{'module': 'EduceTypes', 'cfg': 'MC_Types_quick.cfg' if quick else 'MC_Types_thorough.cfg', 'workers': 4, 'timeout': 1800}], 'TYEXPR')
    for k in ('states', 'transitions'):
        ctx.coverage[k] = ctx.coverage.get(k, 0) + st.get(k, 0)
    ctx.coverage['mc_runs'] = st.get('mc_runs', []) + ctx.coverage.get('mc_runs', [])
    out = []
    g = "<'a, T: Tr>"
    for r in recs:
        ty, c = r['ty'], r['ctx']
        if c == 'into_dup':
            continue
        if c == 'into_target':
            out.append('#[educe(Into(%s))] struct S%s { #[educe(Into(%s))] f: u8, g: &\'a T }' % (ty, g, ty))
            out.append('#[educe(Into(%s), Into(u8))] enum S { V1(u8), V2 { f: u8 } }' % ty)
            continue
        for traits, fa, aa in TYEXPR_SETS:
            if c == 'field':
                out.append('#[educe(%s)] struct S%s { %sa: u8, %sf: %s }' % (traits, g, aa, fa, ty))
            elif c == 'tuple_field':
                out.append('#[educe(%s)] struct S%s(%su8, %s%s);' % (traits, g, aa, fa, ty))
            else:
                dv = '#[educe(Default)] ' if 'Default' in traits else ''
                out.append('#[educe(%s)] enum S%s { %sV1 { %sa: u8, %sf: %s }, V2(%s%s) }' % (traits, g, dv, aa, fa, ty, fa or aa, ty))
    return out


SHAPE_TRAITS = {'Debug': 'Debug', 'Clone': 'Clone', 'CopyClone': 'Copy, Clone', 'PartialEq': 'PartialEq', 'PartialEqEq': 'PartialEq, Eq',
                'PartialOrd': 'PartialEq, PartialOrd', 'Ord': 'PartialEq, Eq, PartialOrd, Ord', 'Hash': 'Hash', 'Default': 'Default', 'Deref': 'Deref',
                'DerefDerefMut': 'Deref, DerefMut', 'DerefMut': 'DerefMut', 'Into': 'Into(u8)',
                'All': 'Debug, Clone, PartialEq, Eq, PartialOrd, Ord, Hash, Default, Deref, DerefMut, Into(u8)'}
SHAPE_MARK = {'Deref': 'Deref', 'DerefDerefMut': 'Deref, DerefMut', 'DerefMut': 'DerefMut', 'Into': 'Into(u8)', 'All': 'Deref, DerefMut, Into(u8)'}


def degenerate_shape_inputs(ctx, quick):
    """inputs from the degenerate-shape model (spec/EduceShapes.tla): empty and near-empty bodies / variant lists / field
    lists under every trait request; each rendered unmarked and with the designating attribute on the first field"""
    st = dict(ctx.coverage)
    recs = model_check_tagged(ctx, [{'module': 'EduceShapes', 'cfg': 'MC_Shapes_quick.cfg' if quick else 'MC_Shapes_thorough.cfg', 'workers': 2, 'timeout': 600}], 'SHAPE')
    for k in ('states', 'transitions'):
        ctx.coverage[k] = ctx.coverage.get(k, 0) + st.get(k, 0)
    ctx.coverage['mc_runs'] = st.get('mc_runs', []) + ctx.coverage.get('mc_runs', [])
    cover = dict(st.get('coverage_per_action', {}))
    cover.update(ctx.coverage.get('coverage_per_action', {}))
    ctx.coverage['coverage_per_action'] = cover
    if not any(p['style'] != 'unit' and p['n'] == 0 for r in recs for p in r['parts']):
        raise ToolError('EduceShapes emitted no zero-field non-unit part: the degenerate corner is not covered')
    out = []

    def body(p, mark):
        fs = []
        for i in range(p['n']):
            a = '#[educe(%s)] ' % mark if (mark and i == 0) else ''
            fs.append(a + ('u8' if p['style'] == 'tuple' else 'f%d: u8' % i))
        if p['style'] == 'unit':
            return ''
        return ('(%s)' if p['style'] == 'tuple' else ' { %s }') % ', '.join(fs)
    for r in recs:
        traits = SHAPE_TRAITS[r['traits']]
        marks = [''] + ([SHAPE_MARK[r['traits']]] if r['traits'] in SHAPE_MARK and any(p['n'] for p in r['parts']) else [])
        for mark in marks:
            if r['kind'] == 'struct':
                p = r['parts'][0]
                out.append('#[educe(%s)] struct T%s%s' % (traits, body(p, mark), '' if p['style'] == 'named' else ';'))
            else:
                dv = [''] + (['#[educe(Default)] '] if 'Default' in traits and r['parts'] else [])
                for d in dv:
                    vs = ['%sV%d%s' % (d if i == 0 else '', i, body(p, mark)) for i, p in enumerate(r['parts'])]
                    out.append('#[educe(%s)] enum T { %s }' % (traits, ', '.join(vs)))
    return out


def c17(ctx):
    quick = ctx.tier == 'quick'
    recs = injection_records(ctx, quick)
    if not quick and getattr(ctx, 'only_cfg', None) is None:
        # the model-level counterpart of "never loops": every scan of the scanner model ends with a verdict under weak
        # fairness (TLC's liveness algorithm needs a small instance; about six minutes)
        live = tlcmod.run_mc('MC_C13', 'MC_C13_live.cfg', ctx.workdir, workers=4, timeout=3000, tags=('INJ',), heap='8g')
        if not live['ok']:
            raise ToolError('MC_C13_live.cfg: the scanner model does not satisfy Termination (violated=%s)' % live['violated'])
        ctx.coverage['liveness'] = 'Termination (<>(phase = "done") under WF_vars(Next)) holds on MC_C13_live.cfg: %s states' % live['stats'].get('distinct')
    exe = xchan.build(ctx)
    requests = []
    meta = {}
    for i, r in enumerate(recs):
        rid = 'i%d' % i
        requests.append({'id': rid, 'text': injected_item(r)})
        meta[rid] = {'mode': 'total'}
    base_texts = [r['text'] for r in requests]
    for i, r in enumerate(recs):
        if r['verdict'] == 'ok':
            rid = 'r%d' % i
            requests.append({'id': rid, 'text': raw_ident_variant(injected_item(r))})
            meta[rid] = {'mode': 'total'}
    neg = negative_corpora(ctx, quick) + model_negatives(ctx, quick)
    for j, (text, why, cfg) in enumerate(neg):
        rid = 'n%d' % j
        requests.append({'id': rid, 'text': text})
        meta[rid] = {'mode': 'total'}
    muts = token_mutations(base_texts + [t for t, _, _ in neg], ctx.seed, 4000 if quick else 200000)
    for j, text in enumerate(muts):
        rid = 'm%d' % j
        requests.append({'id': rid, 'text': text})
        meta[rid] = {'mode': 'total'}
    for j, text in enumerate(stress_inputs()):
        rid = 's%d' % j
        requests.append({'id': rid, 'text': text})
        meta[rid] = {'mode': 'total'}
    tys = type_expression_inputs(ctx, quick)
    for j, text in enumerate(tys):
        rid = 'y%d' % j
        requests.append({'id': rid, 'text': text})
        meta[rid] = {'mode': 'total'}
    shp = degenerate_shape_inputs(ctx, quick)
    for j, text in enumerate(shp):
        rid = 'd%d' % j
        requests.append({'id': rid, 'text': text})
        meta[rid] = {'mode': 'total'}
    ctx.info('%d inputs (%d from the scanner model, %d structural, %d token mutations, %d stress, %d from the type-expression grammar, %d degenerate shapes)' %
             (len(requests), len(recs), len(neg), len(muts), len(stress_inputs()), len(tys), len(shp)))
    recs_raw = xchan.expand(exe, requests)
    # inputs that do not even parse as a derive input are never handed to the macro by the compiler: drop them
    keep = [r for r in recs_raw if r['outcome'] not in ('lex', 'noinput')]
    dropped = len(recs_raw) - len(keep)
    trace = os.path.join(ctx.workdir, 'xtrace.ndjson')
    with open(trace, 'w') as f:
        for r in keep:
            e = {'ev': 'expand', 'id': r['id'], 'rep': 0, 'outcome': r['outcome'], 'out': '', 'mode': 'total', 'g': '', 'expect': '', 'reset': False}
            f.write(json.dumps(e, separators=(',', ':')) + '\n')
    res = xpipe.validate(ctx, trace)
    lines = rpipe.load_lines(trace, res['bad'])
    textmap = {r['id']: r['text'] for r in requests}
    rawmap = {r['id']: r for r in keep}
    cands = [lines[ln]['id'] for ln in res['bad']]
    if cands:
        # S3: candidates are confirmed through the real compiler before they are reported
        conf = kconfirm(ctx, [textmap[c] for c in cands])
        for cid, k in zip(cands, conf):
            if k['panicked'] or rawmap[cid]['outcome'] in ('timeout', 'abort'):
                ctx.violation({'kind': 'not-total', 'input': textmap[cid]},
                              {'what': 'the macro did not terminate with items or a diagnostic', 'input': textmap[cid],
                               'in_process': {'outcome': rawmap[cid]['outcome'], 'err': rawmap[cid].get('err')}, 'real_compiler': k})
            else:
                ctx.note('in-process %s not reproduced by the real compiler (fallback token printer): %s' % (rawmap[cid]['outcome'], textmap[cid][:200]))
    ctx.coverage.update({
        'traces_validated_against_impl': res['n'] - len(res['bad']), 'trace_files': 1, 'trace_events': res['n'], 'trace_events_rejected': len(res['bad']),
        'programs': len(requests), 'evaluations': len(keep), 'distinct_nontrivial': len({r['text'] for r in requests}),
        'inputs_not_parsing_as_derive_input': dropped,
        'rule': 'all inputs of the scanner model (every value kind at every parameter of every trait at every position), the structural negatives, seeded token-level '
                'mutations of those (delete / duplicate / swap / wrap in a group / replace a literal / splice), depth/length stress inputs, and every type expression of the '
                'type grammar model (EduceTypes.tla: 19 leaves x 15 wrappers to depth 2, 3 in the thorough tier) as a field type (named / tuple / enum variant) and as an Into target, and every degenerate shape of EduceShapes.tla (struct bodies and up to 2 (thorough: 3) enum variants, each unit / tuple / named with 0..2 fields, incl. `enum T {}`, `V()` and `V {}`) under 14 trait requests, unmarked and with the designating attribute on the first field; inputs that do not parse as '
                'a derive input are dropped (the compiler never calls the macro on them); outcome must be ok or err; panics/hangs are confirmed through the real compiler',
        'samples': [{'input': muts[0] if muts else ''}, {'input': requests[3]['text']}],
    })
    ctx.assumptions += X_ASSUMPTIONS


def token_mutations(texts, seed, n):
    import random
    import re
    rnd = random.Random(seed)
    tok = re.compile(r'"[^"]*"|\'[^\']\'|[A-Za-z_][A-Za-z_0-9]*|\d+(?:\.\d+)?|::|[^\sA-Za-z_0-9]')
    lits = ['""', '"a b"', '"é"', '0', '-1', '99999999999999999999999', '1.5', "'x'", 'true', 'false', 'b"x"', '"\\u{0}"', 'r#type', 'Self', 'crate', '_']
    out = []
    seen = set()
    tries = 0
    while len(out) < n and tries < n * 5:
        tries += 1
        t = rnd.choice(texts)
        # only mutate inside the first #[educe(...)] .. keep the item itself parseable most of the time
        toks = tok.findall(t)
        if len(toks) < 6:
            continue
        op = rnd.randrange(7)
        i = rnd.randrange(2, len(toks))
        if op == 0:
            del toks[i]
        elif op == 1:
            toks.insert(i, toks[i])
        elif op == 2 and i + 1 < len(toks):
            toks[i], toks[i + 1] = toks[i + 1], toks[i]
        elif op == 3:
            j = min(len(toks), i + rnd.randrange(1, 4))
            toks[i:j] = ['('] + toks[i:j] + [')']
        elif op == 4:
            toks[i] = rnd.choice(lits)
        elif op == 5:
            other = tok.findall(rnd.choice(texts))
            k = rnd.randrange(len(other))
            toks[i:i] = other[k:k + rnd.randrange(1, 4)]
        else:
            toks[i] = rnd.choice([',', '=', '(', ')', '::', '*', '-', 'unsafe', '#'])
        s = ' '.join(toks)
        if s not in seen:
            seen.add(s)
            out.append(s)
    return out


def stress_inputs():
    out = []
    for depth in (8, 64, 256):
        out.append('#[educe(Debug(name%s))] struct T;' % ('(' * depth + 'x' + ')' * depth))
        out.append('#[educe(Default(expression = %s))] struct T;' % ('(' * depth + '1' + ')' * depth))
        out.append('#[educe(Clone(bound(%s)))] struct T<X>(X);' % ', '.join('X: Clone' for _ in range(depth)))
        out.append('#[educe(%s)] struct T;' % ', '.join('Debug' for _ in range(depth)))
        out.append('#[educe(Debug)] struct T { %s }' % ', '.join('#[educe(Debug(name = k%d))] f%d: u8' % (i, i) for i in range(depth)))
        out.append('#[educe(Into(%s))] struct T(u8);' % ('Vec<' * depth + 'u8' + '>' * depth))
    out.append('#[educe(PartialOrd, PartialEq)] enum T { A = 170141183460469231731687303715884105727, B }')
    out.append('#[educe(PartialOrd, PartialEq)] enum T { A = -170141183460469231731687303715884105728, B }')
    out.append('#[educe(PartialOrd, PartialEq)] enum T { A = 340282366920938463463374607431768211455, B }')
    out.append('#[educe(PartialOrd, PartialEq)] #[repr()] enum T { A, B }')
    out.append('#[educe(PartialOrd, PartialEq)] #[repr = "u8"] enum T { A, B }')
    out.append('#[educe(Ord, PartialEq, Eq, PartialOrd)] struct T { #[educe(Ord(rank = 9223372036854775807))] a: u8, #[educe(Ord(rank = -9223372036854775808))] b: u8 }')
    out.append('#[educe(Ord, PartialEq, Eq, PartialOrd)] struct T { #[educe(Ord(rank = 9223372036854775808))] a: u8 }')
    out.append('#[educe(Ord, PartialEq, Eq, PartialOrd)] struct T { #[educe(Ord(rank = "x"))] a: u8 }')
    return out


# ---------------------------------------------------------------- C11
class GenericRender(TypeRender):
    GT = {'T': 'T', 'U': 'U', 'RefT': "&'b T", 'ArrT': '[T; 2]', 'Arr0T': '[T; 0]', 'ArrN': '[u8; N]', 'WrapT': 'Wrap<T>', 'PhantomT': '::core::marker::PhantomData<T>', 'PairTU': '(T, U)', 'conc': 'u8',
          'PhantomAll': '::core::marker::PhantomData<(T, U)>', 'A': 'TA', 'B': 'TB'}

    def __init__(self, idx, cfg, prop, **kw):
        super().__init__(idx, cfg, prop, **kw)
        self.pool = None

    def generics_decl(self):
        return '<T, U>'

    def field_type(self, v, i, f):
        return self.GT[f['ty']]

    def target_name(self, x):
        return {'A': 'TA', 'B': 'TB'}[x]

    def method_path(self, t):
        return {'PartialEq': 'probes::g_eq', 'Ord': 'probes::g_cmp', 'PartialOrd': 'probes::g_pcmp', 'Hash': 'probes::g_hash',
                'Clone': 'probes::g_clone', 'Debug': 'probes::g_fmt', 'Into': 'probes::g_into'}[t]

    def extra_items(self):
        out = []
        n = self.name
        hdr = 'impl<T, U>'
        if 'Copy' in self.traits and 'Clone' not in self.traits:
            out.append('%s ::core::clone::Clone for %s<T, U> { fn clone(&self) -> Self { unimplemented!() } }' % (hdr, n))
        if ('Eq' in self.traits or 'Ord' in self.traits) and 'PartialEq' not in self.traits:
            out.append('%s ::core::cmp::PartialEq for %s<T, U> { fn eq(&self, _: &Self) -> bool { true } }' % (hdr, n))
        if 'Ord' in self.traits and 'Eq' not in self.traits:
            out.append('%s ::core::cmp::Eq for %s<T, U> {}' % (hdr, n))
        if 'Ord' in self.traits and 'PartialOrd' not in self.traits:
            out.append('%s ::core::cmp::PartialOrd for %s<T, U> where Self: ::core::cmp::PartialEq { fn partial_cmp(&self, _: &Self) -> Option<::core::cmp::Ordering> { None } }' % (hdr, n))
        return ' '.join(out)

    def case_impl(self):
        return ''


def c11(ctx):
    quick = ctx.tier == 'quick'
    runs = [{'module': 'MC_C11', 'cfg': 'MC_C11_quick.cfg', 'workers': 8}] if quick else \
           [{'module': 'MC_C11', 'cfg': 'MC_C11_thorough.cfg', 'workers': 12, 'timeout': 3000, 'heap': '16g'}]
    tpath = {'Debug': '::core::fmt::Debug', 'Clone': 'Clone', 'Copy': 'Copy', 'PartialEq': 'PartialEq', 'Eq': 'Eq', 'PartialOrd': 'PartialOrd',
             'Ord': 'Ord', 'Hash': '::core::hash::Hash', 'Default': 'Default', 'Into': 'Into<TA>'}

    def calls(r):
        out = []
        asked = []
        for t in r.traits:
            if t == 'Into':
                asked += [('Into:' + x, 'Into<T%s>' % x) for x in r.opts['targets']]
            else:
                asked.append((t, tpath[t]))
        for t, path in asked:
            for a, an in ((True, 'P'), (False, 'No')):
                for b, bn in ((True, 'P'), (False, 'No')):
                    out.append('rec_applies(&mut out, %d, "%s", %s, %s, impls!(%s<%s, %s>: %s));'
                               % (r.idx, t, str(a).lower(), str(b).lower(), r.name, an, bn, path))
        return out

    r_property(ctx, runs, ['Seal'], GenericRender, calls, [0, 1],
               COMMON_ASSUMPTIONS + ['the applicability probe impls!(Type<Args>: Trait) (inherent associated const shadowing a blanket trait const) reports what rustc\'s trait '
                                     'resolution proves', 'argument types: P implements every trait, No implements none'],
               'generic struct/enum items over <T, U> within the bounds of the MC_C11 cfg: field type classes {T, U, Wrap<T>, PhantomData<T>, (T,U), concrete} x the attributes '
               'that decide delegation (ignore / method per trait, default variant, Into designation) x 13 trait sets (primaries with and without their companions, stand-alone '
               'Copy / Eq / Ord next to hand-written supertraits); for every educed trait and every assignment of {implements everything, implements nothing} to T and U the real '
               'compiler is asked whether the impl applies; non-trivial = any non-default setting or more than one variant',
               trace_module='TraceB', trace_cfg='TraceB.cfg')


# ---------------------------------------------------------------- C12
GEN_DECL = {'TU': '<T, U>', 'rich': "<'a, const N: usize, T: Bnd = u8>", 'lc': "<'a, const N: usize>",
            'wide': "<'a, 'b: 'a, T: ?Sized + Bnd, const N: usize = 2, U: Bnd = u8>"}
GEN_WHERE = {'TU': '', 'rich': 'T: Usr', 'lc': '', 'wide': "&'b T: Usr, U: Usr, [u8; N]: Sized, Self: Sized, for<'x> &'x U: Usr2"}
GEN_IMPL = {'TU': ('impl<T, U>', '<T, U>'), 'rich': ("impl<'a, const N: usize, T: Bnd>", "<'a, N, T>"), 'lc': ("impl<'a, const N: usize>", "<'a, N>"),
            'wide': ("impl<'a, 'b: 'a, T: ?Sized + Bnd, const N: usize, U: Bnd>", "<'a, 'b, T, N, U>")}
GEN_PHANTOM = {'TU': 'PhantomData<(T, U)>', 'rich': "PhantomData<&'a [T; N]>", 'lc': "PhantomData<&'a [u8; N]>", 'wide': "PhantomData<(&'a u8, &'b T, [U; N])>"}


class BoundsRender(GenericRender):
    def generics_decl(self):
        return GEN_DECL[self.opts['gen']]

    def where_decl(self):
        w = GEN_WHERE[self.opts['gen']]
        return 'where ' + w if w else ''

    def custom_bound_text(self, t):
        return 'T: Cst'

    def field_type(self, v, i, f):
        ty = f['ty']
        if ty == 'PhantomAll':
            return GEN_PHANTOM[self.opts['gen']]
        if ty == 'PhantomT':
            return 'PhantomData<T>'
        return self.GT[ty]

    def type_default_expr(self):
        return 'todo!()'


def nospace(s):
    return s.replace(' ', '')


def c12(ctx):
    quick = ctx.tier == 'quick'
    runs = [{'module': 'MC_C12', 'cfg': 'MC_C12_quick.cfg', 'workers': 8}] if quick else \
           [{'module': 'MC_C12', 'cfg': 'MC_C12_thorough.cfg', 'workers': 12, 'timeout': 3000, 'heap': '16g'}]
    corpus = rpipe.model_check(ctx, runs, ['Seal'])
    corpus_path = os.path.join(ctx.workdir, 'corpus.ndjson')
    rpipe.write_ndjson(corpus_path, corpus)
    exe = xchan.build(ctx)
    renders = [BoundsRender(i, c, 'C12') for i, c in enumerate(corpus, 1)]
    requests = [{'id': r.idx, 'text': r.item(derive=False)} for r in renders]
    raw = xchan.expand(exe, requests)
    trace = os.path.join(ctx.workdir, 'trace.ndjson')
    n_items = 0
    with open(trace, 'w') as f:
        for r in raw:
            if r['outcome'] != 'ok':
                # an accepted configuration that is refused: judged as an impossible impl record
                f.write(json.dumps({'t': r['id'], 'op': 'refused', 'tr': '', 'generics': [], 'where': []}) + '\n')
                continue
            trs = []
            for it in r['items']:
                tr = it.get('trait')
                if tr is None and 'fn new' in (it.get('members') or []):
                    tr = 'Default:new'
                if tr == 'Into':
                    tr = 'Into:' + {'TA': 'A', 'TB': 'B'}.get(nospace(it.get('target') or ''), '?')
                e = {'t': r['id'], 'op': 'impl', 'tr': tr or '?', 'generics': [nospace(g) for g in it.get('generics', [])],
                     'where': [nospace(w) for w in it.get('where', [])]}
                f.write(json.dumps(e, separators=(',', ':')) + '\n')
                trs.append(e['tr'])
                n_items += 1
            f.write(json.dumps({'t': r['id'], 'op': 'itemset', 'tr': '*', 'trs': trs, 'generics': [], 'where': []}, separators=(',', ':')) + '\n')
    res = rpipe.validate_trace(ctx, corpus_path, trace, 'TraceB', 'TraceB.cfg')
    lines = rpipe.load_lines(trace, res['bad'])
    rawmap = {r['id']: r for r in raw}
    done = set()
    for ln in res['bad']:
        e = lines[ln]
        k = (e['t'], e['tr'])
        if k in done:
            continue
        done.add(k)
        r = renders[e['t'] - 1]
        ctx.violation({'kind': 'impl-header', 'cfg': corpus[e['t'] - 1], 'trait': e['tr']},
                      {'what': 'the generic parameters or the where-clause of a generated impl are not what the bound mode and the type\'s own generics dictate '
                               '(EduceBounds.ImplParams / WhereSet)', 'input': requests[e['t'] - 1]['text'], 'observed': e,
                       'outcome': rawmap[e['t']]['outcome'], 'err': rawmap[e['t']].get('err')})
    ctx.coverage.update({
        'traces_validated_against_impl': res['n'] - len(res['bad']), 'trace_files': 1, 'trace_events': res['n'], 'trace_events_rejected': len(res['bad']),
        'programs': len(corpus), 'evaluations': n_items, 'distinct_nontrivial': sum(1 for c in corpus if any(v != 'auto' for v in c['opts']['bounds'].values())),
        'rule': 'generic items over two generics descriptors (<T, U>; <\'a, const N: usize, T: Bnd = u8> where T: Usr) x 13 trait sets x bound mode of the set\'s '
                'primary trait {auto, auto spelled explicitly, bound = false, bound(*), custom predicate} in every spelling x field type classes and delegation attributes; '
                'every impl item of the in-process expansion is one record (generic parameters, where-predicates, white space removed); '
                'distinct_nontrivial = configurations with a non-automatic mode',
        'samples': [{'input': requests[len(requests) // 2]['text'], 'record': rpipe.load_lines(trace, [1]).get(1)}],
    })
    ctx.assumptions += X_ASSUMPTIONS + ['predicates are compared as token text with white space removed (the property is about the predicates written, so text is the observable)']


# ---------------------------------------------------------------- C01
class CompileRender(TypeRender):
    """multi-trait items that must compile: probe-typed fields, real custom methods, real default expressions"""
    with_finger = False

    def default_value_text(self, v, i, f):
        return {'int': '%d' % (10 + i), 'expr': 'P::new(3, 0, %d)' % (10 + i)}.get(f['dflt'], 'P::new(3, 0, 1)')

    def type_default_expr(self):
        return 'todo!()'

    def case_impl(self):
        return ''


class CompileBoundsRender(BoundsRender):
    def field_type(self, v, i, f):
        ty = f['ty']
        if ty == 'PhantomAll':
            return '::core::marker::' + GEN_PHANTOM[self.opts['gen']]
        if ty == 'PhantomT':
            return '::core::marker::PhantomData<T>'
        return self.GT[ty]

    def extra_items(self):
        out = []
        n = self.name
        hdr, targs = GEN_IMPL[self.opts['gen']]
        ty, wh = n + targs, GEN_WHERE[self.opts['gen']]
        if 'Copy' in self.traits and 'Clone' not in self.traits:
            out.append('%s ::core::clone::Clone for %s %s { fn clone(&self) -> Self { unimplemented!() } }' % (hdr, ty, 'where ' + wh if wh else ''))
        if 'Eq' in self.traits and 'PartialEq' not in self.traits:
            out.append('%s ::core::cmp::PartialEq for %s %s { fn eq(&self, _: &Self) -> bool { true } }' % (hdr, ty, 'where ' + wh if wh else ''))
        if 'Ord' in self.traits and 'PartialOrd' not in self.traits:
            out.append('%s ::core::cmp::PartialOrd for %s where Self: ::core::cmp::PartialEq%s { fn partial_cmp(&self, _: &Self) -> Option<::core::cmp::Ordering> { None } }'
                       % (hdr, ty, ', ' + wh if wh else ''))
        return ' '.join(out)


SPECIAL_SHAPES = [
    # all twelve traits on one item
    '#[educe(Debug, Clone, Copy, PartialEq, Eq, PartialOrd, Ord, Hash, Default, Deref, DerefMut, Into(u16))] struct {N} {{ #[educe(Deref, DerefMut)] a: u8, b: u16 }}',
    '#[educe(Debug, Clone, Copy, PartialEq, Eq, PartialOrd, Ord, Hash, Default, Deref, DerefMut, Into(u16))] enum {N} {{ #[educe(Default)] V1 {{ #[educe(Deref, DerefMut)] a: u8, b: u16 }}, V2(#[educe(Deref, DerefMut)] u8, u16) }}',
    # shapes the grammars above do not reach: empty / single-variant enums, unit structs, raw identifiers, reprs, where-clauses
    '#[educe(Clone, PartialEq, Eq, PartialOrd, Ord, Hash)] enum {N} {{}}',
    '#[educe(Debug(name = true), Clone, Copy, PartialEq, Eq, PartialOrd, Ord, Hash)] enum {N} {{}}',
    '#[educe(Debug, Clone, Copy, PartialEq, Eq, PartialOrd, Ord, Hash, Default)] struct {N};',
    '#[educe(Debug, Clone, PartialEq, Eq, PartialOrd, Ord, Hash, Default)] struct {N}();',
    '#[educe(Debug, Clone, PartialEq, Eq, PartialOrd, Ord, Hash, Default)] struct {N} {{}}',
    '#[educe(Debug, Clone, PartialEq, Eq, PartialOrd, Ord, Hash, Default)] enum {N} {{ Only }}',
    '#[educe(Debug, Clone, PartialEq, Eq, PartialOrd, Ord, Hash, Default, Deref, DerefMut, Into(u8))] enum {N} {{ Only(u8) }}',
    '#[educe(Debug, Clone, PartialEq, Eq, PartialOrd, Ord, Hash, Default)] enum {N} {{ A(), #[educe(Default)] B {{}} }}',
    '#[educe(Debug, Clone, PartialEq, Eq, PartialOrd, Ord, Hash, Default)] struct {N} {{ r#type: u8, r#fn: u16 }}',
    '#[educe(Debug, Clone, PartialEq, Eq, PartialOrd, Ord, Hash, Default)] enum {N} {{ r#Self_ {{ r#type: u8 }}, #[educe(Default)] r#Match(u8) }}',
    '#[educe(Debug, Clone, PartialEq, Eq, PartialOrd, Ord, Hash)] enum r#{N} {{ A {{ r#loop: u8, r#match: u8 }}, B }}',
    '#[educe(Debug, Clone, Copy, PartialEq, Eq, PartialOrd, Ord, Hash)] #[repr(u8)] enum {N} {{ A = 1, B = 200, C }}',
    '#[educe(Debug, Clone, PartialEq, Eq, PartialOrd, Ord, Hash)] #[repr(C)] enum {N} {{ A(u8), B {{ x: u16 }} }}',
    '#[educe(Debug, Clone, PartialEq, Eq, PartialOrd, Ord, Hash)] #[repr(align(8))] enum {N} {{ A(u8), B }}',
    '#[educe(Debug, Clone, PartialEq, Eq, PartialOrd, Ord, Hash)] #[repr(C, align(4))] struct {N} {{ a: u8 }}',
    '#[educe(Debug, Clone, PartialEq, Eq, PartialOrd, Ord, Hash)] #[repr(transparent)] struct {N}(u8);',
    '#[educe(Debug, Clone, PartialEq, Eq, PartialOrd, Ord, Hash)] #[repr(i64)] enum {N} {{ A = -9223372036854775808, B = 9223372036854775807 }}',
    "#[educe(Debug, Clone, PartialEq, Eq, PartialOrd, Ord, Hash)] struct {N}<'a, 'b: 'a, T: ?Sized + 'a, const K: usize> where T: 'b {{ a: &'a T, b: &'b [u8; K] }}",
    "#[educe(Debug, Clone, PartialEq, Eq, PartialOrd, Ord, Hash)] enum {N}<'a, T: 'a + ::core::fmt::Debug = u8> {{ A(&'a T), B {{ x: T }} }}",
    '#[educe(Debug(bound(*)), Clone(bound(*)), PartialEq(bound(*)), Hash(bound(*)))] struct {N}<T, const K: usize, U> {{ a: T, b: [U; K] }}',
    "#[educe(Debug(bound(*)), Clone(bound(*)))] enum {N}<'a, T, const K: usize> {{ A(&'a T), B([u8; K]) }}",
    '#[educe(Deref, DerefMut)] struct {N}<T>(T);',
    "#[educe(Deref)] struct {N}<'a, T>(&'a T);",
    '#[educe(Deref, DerefMut)] enum {N}<T> {{ A(T), B {{ #[educe(Deref, DerefMut)] x: T, y: u8 }} }}',
    "#[educe(Into(&'static str), Into(u8))] struct {N} {{ a: &'static str, b: u8 }}",
    '#[educe(Into(u16))] struct {N}<T> {{ #[educe(Into(u16))] a: T, b: u8 }}',
    '#[educe(Default(new))] struct {N}<T> {{ a: T, #[educe(Default = 7)] b: u8, #[educe(Default = "x")] c: String, #[educe(Default = \'c\')] d: char, #[educe(Default = 1.5)] e: f32, #[educe(Default = b\'a\')] f: u8, #[educe(Default = b"ab")] g: &\'static [u8; 2], #[educe(Default = true)] h: bool }}',
    '#[educe(Default(expression = {N}(1, 2)))] struct {N}(u8, u16);',
    '#[educe(Default(expression = {N}::B(3), new))] enum {N} {{ A, B(u8) }}',
    '#[educe(Default)] union {N} {{ a: u8, #[educe(Default = 300)] b: u16 }}',
    '#[educe(Debug(unsafe), Clone, Copy, PartialEq(unsafe), Eq, Hash(unsafe), Default)] union {N} {{ a: u8 }}',
    '#[educe(Debug(unsafe, name = false), Clone, Copy)] union {N}<T: Copy> {{ a: T, b: u8 }}',
    '#[educe(Debug(name = false))] struct {N}(u8, u16);',
    '#[educe(Debug(named_field = false, name = false))] struct {N} {{ a: u8 }}',
    '#[educe(Debug)] enum {N} {{ #[educe(Debug(name = false))] A(u8, u8), #[educe(Debug(name = false, named_field = false))] B {{ x: u8 }}, #[educe(Debug(named_field = true, name = false))] C(u8) }}',
    '#[educe(Debug(name = true))] enum {N} {{ #[educe(Debug(name = false))] A, B(u8) }}',
]


def c01(ctx):
    quick = ctx.tier == 'quick'
    runs = [{'module': 'MC_C01', 'cfg': 'MC_C01_quick.cfg' if quick else 'MC_C01_thorough.cfg', 'workers': 8, 'timeout': 3000}]
    corpus = rpipe.model_check(ctx, runs, ['Seal'])
    st = dict(ctx.coverage)
    bounds_corpus = rpipe.model_check(ctx, [{'module': 'MC_C12', 'cfg': 'MC_C12_quick.cfg' if quick else 'MC_C12_thorough.cfg', 'workers': 8, 'timeout': 3000}], ['Seal'])
    ctx.coverage['states'] += st['states']
    ctx.coverage['transitions'] += st['transitions']
    ctx.coverage['mc_runs'] = st['mc_runs'] + ctx.coverage['mc_runs']
    # an insufficient custom / disabled bound is the user's own ill-typed input: such configurations are only
    # compiled when no field mentions a type parameter
    def user_bound_ok(c):
        modes = [v for k, v in c['opts']['bounds'].items() if k != '-']
        if 'all' in modes and 'Default' in c['opts']['traits'] and any(f['ty'] == 'RefT' for var in c['variants'] for f in var['fields']):
            return False      # `T: Default` does not give `&'b T: Default`: bound(*) is the user's own insufficient bound here
        if 'all' in modes and c['opts']['gen'] == 'lc' and any(f['ty'] == 'ArrN' for var in c['variants'] for f in var['fields']):
            return False      # no type parameter to bound: bound(*) says nothing about `[u8; N]` (the user's own insufficient bound)
        if not any(m in ('custom', 'disabled') for m in modes):
            return True
        return all(f['ty'] in ('conc', 'PhantomT', 'PhantomAll', 'A', 'B') for var in c['variants'] for f in var['fields'])
    bounds_corpus = [c for c in bounds_corpus if user_bound_ok(c)]
    if quick:
        bounds_corpus = bounds_corpus[ctx.seed % 6::6]
    renders = []
    texts = []
    for c in corpus:
        r = CompileRender(len(renders) + 1, c, 'C01')
        renders.append(r)
    for c in bounds_corpus:
        r = CompileBoundsRender(len(renders) + 1, c, 'C01')
        renders.append(r)
    items = [(r.item(), r.extra_items(), r.item(derive=False)) for r in renders]
    for k, tmpl in enumerate(SPECIAL_SHAPES):
        n = 'S%d' % (k + 1)
        body = tmpl.format(N=n)
        items.append(('#[derive(Educe)] ' + body, '', body))
    # field types of every syntactic class (typed fragment of EduceTypes.tla): educing exactly the traits the type
    # implements must be accepted and compile cleanly
    st2 = dict(ctx.coverage)
    typed = model_check_tagged(ctx, [{'module': 'EduceTypes', 'cfg': 'MC_Typed_quick.cfg' if quick else 'MC_Typed_thorough.cfg', 'workers': 4, 'timeout': 1800}], 'TYTYPED')
    ctx.coverage['states'] += st2['states']
    ctx.coverage['transitions'] += st2['transitions']
    ctx.coverage['mc_runs'] = st2['mc_runs'] + ctx.coverage['mc_runs']
    n_typed = 0
    typed_of = {}
    import re as _re
    typed = sorted(typed, key=lambda r: r['ty'])      # (TLC's workers print in no fixed order)
    for k, rec in enumerate(typed):
        ty = rec['ty']
        traits = [t for t in ('Debug', 'Clone', 'Copy', 'PartialEq', 'Eq', 'PartialOrd', 'Ord', 'Hash', 'Default') if rec['sup'].get(t)]
        gens = []
        if "'a" in ty:
            gens.append("'a")
        if _re.search(r'\bT\b', ty):
            gens.append("T: 'static")
        g = '<%s>' % ', '.join(gens) if gens else ''
        shape = k % 3
        n = 'Y%d' % (k + 1)
        if shape == 0:
            body = '#[educe(%s)] struct %s%s { a: u8, f: %s }' % (', '.join(traits), n, g, ty)
        elif shape == 1:
            body = '#[educe(%s)] struct %s%s(u8, %s);' % (', '.join(traits), n, g, ty)
        else:
            dv = '#[educe(Default)] ' if 'Default' in traits else ''
            body = '#[educe(%s)] enum %s%s { V1 { a: u8, f: %s }, V2(%s), %sV3 }' % (', '.join(traits), n, g, ty, ty, dv)
        # (parentheses around a type are the user's own style; the attribute sits on the type only)
        items.append(('#[allow(unused_parens)] #[derive(Educe)] ' + body, '', body))
        typed_of[len(items) - 1] = rec
        n_typed += 1
    # in-process: was the request accepted at all?
    exe = xchan.build(ctx)
    raw = xchan.expand(exe, [{'id': i, 'text': t[2]} for i, t in enumerate(items)])
    accepted = {r['id']: r for r in raw}
    # real compiler
    import cases
    prelude = ('#![allow(dead_code)]\nuse educe::Educe; #[allow(unused_imports)] use probes::*; #[allow(unused_imports)] use ::core::marker::PhantomData; '
               'pub trait Bnd {} pub trait Usr {} pub trait Usr2 {} pub trait Cst {} impl Bnd for u8 {} impl Usr for u8 {} '
               '#[derive(Debug, Clone, Copy, PartialEq, Eq, PartialOrd, Ord, Hash, Default)] pub struct Bb<X>(pub X);')
    def site(i, item, extra):
        # where the item is written: in a module of its own, inside a function body, or inside a const block
        if i % 7 == 5:
            return 'mod m%d { use super::*; fn site() { %s %s } }' % (i, item, extra)
        if i % 7 == 6:
            return 'mod m%d { use super::*; const _: () = { %s %s }; }' % (i, item, extra)
        return 'mod m%d { use super::*; %s %s }' % (i, item, extra)

    ok, per, stderr = rpipe.compile_only(ctx, 'C01', prelude, [site(i, item, extra) for i, (item, extra, _) in enumerate(items)])
    trace = os.path.join(ctx.workdir, 'ktrace.ndjson')
    with open(trace, 'w') as f:
        for i in range(len(items)):
            e = {'t': i + 1, 'op': 'compile', 'expand': accepted[i]['outcome'], 'errors': per[i]['errors'], 'warnings': per[i]['warnings']}
            f.write(json.dumps(e, separators=(',', ':')) + '\n')
    res = tlcmod.run_trace('TraceK', 'TraceK.cfg', ctx.workdir, {'TRACE': trace})
    if not res['consumed']:
        raise ToolError('TraceK did not consume the trace:\n' + '\n'.join(res['text'].split('\n')[-30:]))
    ctx.info('K trace validated: %d records, %d rejected' % (res['n'], len(res['bad'])))
    for ln in res['bad']:
        i = ln - 1
        src = items[i][0]
        cfg = renders[i].cfg if i < len(renders) else {'special': src}
        if i in typed_of:
            # identified by the compiler's complaint and (for errors) the leaf type, not by every wrapper around it
            codes = [(c, typed_of[i]['leaf']) for c in sorted(set(per[i]['errors']))] + [(c, '*') for c in sorted(set(per[i].get('wcodes', [])))]
            if accepted[i]['outcome'] != 'ok':
                codes = [('refused', typed_of[i]['leaf'])]
            for code, leaf in codes:
                ctx.violation({'kind': 'typed-field', 'code': code, 'leaf': leaf},
                              {'what': 'educing exactly the traits this field type implements is refused, or the expansion does not compile without errors and warnings',
                               'source': src, 'type': typed_of[i]['ty'], 'in_process': {'outcome': accepted[i]['outcome'], 'err': accepted[i].get('err')},
                               'rustc': per[i]['msgs'][:5]})
            continue
        ctx.violation({'kind': 'accepted-but-not-clean' if accepted[i]['outcome'] == 'ok' else 'documented-form-refused', 'cfg': cfg},
                      {'what': 'an acceptable derive request was refused, or its expansion does not compile without errors and warnings',
                       'source': src, 'in_process': {'outcome': accepted[i]['outcome'], 'err': accepted[i].get('err')},
                       'rustc': per[i]['msgs'][:5]})
    ctx.coverage.update({
        'traces_validated_against_impl': res['n'] - len(res['bad']), 'trace_files': 1, 'trace_events': res['n'], 'trace_events_rejected': len(res['bad']),
        'programs': len(items), 'evaluations': len(items), 'distinct_nontrivial': sum(1 for c in corpus if nontrivial(c)) + len(bounds_corpus) + len(SPECIAL_SHAPES),
        'rule': 'multi-trait configurations (eight traits educed together, t-way attribute settings, every spelling / name pool incl. raw and template-internal identifiers), '
                'the generic-header / bound-mode corpus of C12 (lifetimes, bounded + defaulted type parameters, const parameters, user where-clauses), and a list of special '
                'shapes (empty / single-variant enums, unit structs, #[repr(..)] forms, raw identifiers, literal kinds); each compiled with the real compiler under '
                '#![allow(dead_code)] only, errors and warnings attributed per item; each also expanded in process to tell refusal from a compile failure',
        'samples': [{'source': items[len(items) // 3][0]}, {'record': rpipe.load_lines(trace, [1]).get(1)}],
    })
    ctx.assumptions += COMMON_ASSUMPTIONS + ['single-trait shapes, #[repr]/discriminant forms, Deref/Into designations are compiled (and reported the same way) by the checks of C02-C10 and C20']


# ---------------------------------------------------------------- C18
def c18(ctx):
    import features
    import itertools
    import random
    import subprocess
    import re as _re
    from concurrent.futures import ThreadPoolExecutor
    quick = ctx.tier == 'quick'
    facts = features.extract()
    facts_path = os.path.join(ctx.workdir, 'facts.json')
    json.dump(facts, open(facts_path, 'w'))
    feats = facts['features']
    res = tlcmod.run_mc('EduceFeatures', 'EduceFeatures.cfg', ctx.workdir, workers=4, timeout=600, tags=('BOUNDARY', 'DSITES'), heap='4g', extra_env={'FACTS': facts_path})
    ctx.info('TLC EduceFeatures: %s violated=%s' % (res['stats'], res['violated']))
    ctx.coverage['states'] = res['stats'].get('distinct', 0)
    ctx.coverage['transitions'] = res['stats'].get('generated', 0)
    ctx.coverage['mc_runs'] = [{'module': 'EduceFeatures', 'cfg': 'EduceFeatures.cfg', 'stats': res['stats'], 'violated': res['violated']}]
    ctx.coverage['exhaustive'] = not quick
    predicted = []
    if not res['ok']:
        if res['violated'] is None:
            raise ToolError('EduceFeatures could not be checked:\n' + '\n'.join(res['text'].split('\n')[-40:]))
        # a violated gating invariant is a prediction about some subset; the real build decides (S3)
        m = _re.search(r'S = \{([^}]*)\}', res['text'])
        if m:
            predicted.append(sorted(x.strip().strip('"') for x in m.group(1).split(',') if x.strip()))
        ctx.note('the gating model predicts a broken subset (%s): %s' % (res['violated'], predicted))
    dsites = sorted(res['tagged']['DSITES'][0], key=lambda x: (x['pos'], x['shape'])) if res['tagged'].get('DSITES') else []
    if not dsites:
        raise ToolError('EduceFeatures emitted no DSITES')
    boundary = [sorted(f for f, b in r['s'].items() if b) for r in res['tagged']['BOUNDARY']]
    rnd = random.Random(ctx.seed)
    subsets = []
    if quick:
        for k in (1, 2, len(feats) - 1, len(feats)):
            subsets += [sorted(c) for c in itertools.combinations(feats, k)]
        subsets += [sorted(rnd.sample(feats, rnd.randrange(3, len(feats) - 1))) for _ in range(24)]
        mid = [b for b in boundary if 3 <= len(b) <= 5]
        subsets += rnd.sample(mid, min(24, len(mid)))
    else:
        for k in range(1, len(feats) + 1):
            subsets += [sorted(c) for c in itertools.combinations(feats, k)]
    subsets += predicted
    uniq = []
    seen = set()
    for s_ in subsets:
        t = tuple(s_)
        if t not in seen:
            seen.add(t)
            uniq.append(s_)
    subsets = [[]] + uniq
    jobs = 4 if quick else 12

    def build(args):
        k, sub = args
        env = dict(os.environ)
        env['CARGO_TARGET_DIR'] = os.path.join(ROOT_WORK, 'C18_tgt%d' % (k % jobs))
        cmd = ['cargo', 'check', '--offline', '--no-default-features', '--message-format=json', '-q']
        if sub:
            cmd += ['--features', ','.join(sub)]
        p = subprocess.run(cmd, cwd='/repo', stdout=subprocess.PIPE, stderr=subprocess.PIPE, text=True, env=env)
        warnings = 0
        msgs = []
        for line in p.stdout.split('\n'):
            if line.startswith('{'):
                try:
                    d = json.loads(line)
                except ValueError:
                    continue
                if d.get('reason') == 'compiler-message' and (d.get('target') or {}).get('name') == 'educe':
                    lvl = d['message'].get('level')
                    if lvl == 'warning':
                        warnings += 1
                    if lvl in ('warning', 'error'):
                        msgs.append(d['message'].get('message', '')[:300])
        return {'op': 'build', 'features': sub, 'ok': p.returncode == 0, 'warnings': warnings,
                'explicit': any('at least one of the trait features must be enabled' in m for m in msgs), 'msgs': msgs[:5]}

    # the shared dependencies of one target directory are compiled once; keep each directory's jobs sequential
    def run_lane(lane):
        return [build((lane, sub)) for sub in subsets[lane::jobs]]
    with ThreadPoolExecutor(max_workers=jobs) as ex:
        lanes = list(ex.map(run_lane, range(jobs)))
    builds = [b for lane in lanes for b in lane]
    ctx.info('%d feature subsets built (cargo check of the crate itself)' % len(builds))
    # expansions per subset against the all-features reference
    pairs = model_check_tagged(ctx, [{'module': 'MC_C15', 'cfg': 'MC_C15_quick.cfg', 'workers': 8}], 'PAIRS')
    ctx.coverage['states'] += res['stats'].get('distinct', 0)
    inputs = {}
    for ci, rec in enumerate(pairs, 1):
        for pr in rec['pairs']:
            r = MultiRender(ci, pr['restricted'], 'C18', canonical=False, name='T')
            r.pool = None
            text = r.item(derive=False)
            inputs.setdefault(text, frozenset(pr['restricted']['opts']['traits']))
    all_inputs = sorted(inputs.items())
    ref_exe = xchan.build(ctx)
    ref = {r['id']: r for r in xchan.expand(ref_exe, [{'id': t, 'text': t} for t, _ in all_inputs])}
    # inputs the all-features build refuses (the hand-listed structural negatives of C13): a subset build must refuse
    # them too, as long as every trait they name is enabled (otherwise "unsupported trait" is the expected answer anyway)
    import re as _re
    negs_all = []
    for text, why, _cfg in negative_corpora(ctx, True):
        named = set(_re.findall(r'\b(Debug|Clone|Copy|PartialEq|Eq|PartialOrd|Ord|Hash|Default|DerefMut|Deref|Into)\b', text))
        negs_all.append((text, frozenset(named)))
    neg_ref = {r['id']: r['outcome'] for r in xchan.expand(ref_exe, [{'id': t, 'text': t} for t, _ in negs_all])}
    negs_all = [(t, n) for t, n in negs_all if neg_ref.get(t) == 'err' and n]
    if quick:
        exp_subsets = [[f] for f in feats] + [['PartialEq', 'Eq'], ['Clone', 'Copy'], ['PartialOrd', 'Ord'], sorted(rnd.sample(feats, 5))]
    else:
        exp_subsets = [[f] for f in feats] + [sorted(c) for c in itertools.combinations(feats, 2)] + \
                      [sorted(rnd.sample(feats, rnd.randrange(3, 11))) for _ in range(60)]
    cap = 150 if quick else 600

    def expand_lane(lane):
        out = []
        for sub in exp_subsets[lane::jobs]:
            tdir = os.path.join(ROOT_WORK, 'C18_inproc%d' % lane)
            try:
                exe = xchan.build(None, features=sub, target_dir=tdir)
            except ToolError as e:
                # the crate does not build with this subset: that is an observation, not a tool failure
                out.append({'op': 'build', 'features': sub, 'ok': False, 'warnings': 0, 'explicit': False, 'msgs': [str(e)[-600:]], 'via': 'in-process harness'})
                continue
            mine = [t for t, need in all_inputs if need <= set(sub)]
            rl = random.Random(hash(tuple(sub)) ^ ctx.seed)
            if len(mine) > cap:
                mine = rl.sample(mine, cap)
            reqs = [{'id': t, 'text': t} for t in mine]
            dis = [f for f in feats if f not in sub]
            reqs += [{'id': 'dis:' + f, 'text': '#[educe(%s)] struct T { a: u8 }' % f} for f in dis]
            dis_text = {}
            for en in sub:
                for f in dis:
                    for site in dsites:
                        t = disabled_site_item(en, f, site, set(sub))
                        if t:
                            dis_text['dis:%s:%s:%s:%s' % (en, f, site['pos'], site['shape'])] = t
            reqs += [{'id': k, 'text': t} for k, t in sorted(dis_text.items())]
            myneg = [t for t, named in negs_all if named <= set(sub)]
            if len(myneg) > cap:
                myneg = rl.sample(myneg, cap)
            neg_text = {'neg:%d' % k: t for k, t in enumerate(myneg)}
            reqs += [{'id': k, 'text': t} for k, t in sorted(neg_text.items())]
            for r in xchan.expand1(exe, reqs):
                if str(r['id']).startswith('neg:'):
                    out.append({'op': 'refuse', 'features': sub, 'input': neg_text[r['id']], 'outcome': r['outcome']})
                elif str(r['id']).startswith('dis:'):
                    text = dis_text.get(r['id']) or '#[educe(%s)] struct T { a: u8 }' % r['id'][4:]
                    err = r.get('err') or ''
                    listed = [l.strip() for l in err.split('available traits:', 1)[1].split('\n') if l.strip()] if 'available traits:' in err else None
                    out.append({'op': 'disabled', 'features': sub, 'input': text, 'outcome': r['outcome'],
                                'unsupported': 'unsupported trait' in err,
                                # the diagnostic offers the traits that are available: exactly the enabled ones
                                'listed': listed is None or sorted(listed) == sorted(sub), 'listed_names': listed or []})
                else:
                    out.append({'op': 'expand', 'features': sub, 'input': r['id'], 'outcome': r['outcome'],
                                'out': xpipe.digest(r['out']) if r.get('out') is not None else '', 'ref': xpipe.digest(ref[r['id']]['out'] or '')})
        return out
    with ThreadPoolExecutor(max_workers=jobs) as ex:
        exps = [e for lane in ex.map(expand_lane, range(jobs)) for e in lane]
    ctx.info('%d expansions under %d feature subsets' % (len(exps), len(exp_subsets)))
    trace = os.path.join(ctx.workdir, 'ftrace.ndjson')
    allrec = builds + exps
    with open(trace, 'w') as f:
        for e in allrec:
            e2 = {k: v for k, v in e.items() if k != 'msgs'}
            e2.setdefault('ok', True)
            e2.setdefault('warnings', 0)
            e2.setdefault('explicit', False)
            f.write(json.dumps(e2, separators=(',', ':')) + '\n')
    tr = tlcmod.run_trace('TraceF', 'TraceF.cfg', ctx.workdir, {'TRACE': trace})
    if not tr['consumed']:
        raise ToolError('TraceF did not consume the trace:\n' + '\n'.join(tr['text'].split('\n')[-30:]))
    ctx.info('F trace validated: %d records, %d rejected' % (tr['n'], len(tr['bad'])))
    for ln in tr['bad']:
        e = allrec[ln - 1]
        ctx.violation({'kind': 'feature-subset', 'op': e['op'], 'features': e['features'], 'input': e.get('input', '')},
                      {'what': 'a feature subset does not build cleanly / does not behave like the full build', 'record': e})
    for pset in predicted:
        b = [x for x in builds if x['features'] == pset]
        if b and b[0]['ok'] and b[0]['warnings'] == 0:
            ctx.note('gating model predicted a failure for %s but the real build is clean (model drift)' % pset)
    ctx.coverage.update({
        'traces_validated_against_impl': tr['n'] - len(tr['bad']), 'trace_files': 1, 'trace_events': tr['n'], 'trace_events_rejected': len(tr['bad']),
        'programs': len(builds), 'evaluations': len(allrec), 'distinct_nontrivial': len(builds) - 1,
        'feature_subsets_built': len(builds), 'feature_subsets_expanded': len(exp_subsets), 'boundary_subsets_flagged_by_model': len(boundary),
        'rule': 'gating facts extracted from the source and checked by TLC for all 4095 non-empty subsets; real `cargo check --no-default-features --features S` of the crate '
                'for ' + ('the subsets of size 1, 2, 11, 12, 24 seeded random ones, a sample of the subsets TLC flags as gate boundaries, and the empty set'
                          if quick else 'all 4095 subsets and the empty set') +
                '; in-process expansion of inputs that only name enabled traits under a sample of subsets (singletons, coupled pairs, random) compared with the all-features '
                'expansion; every disabled trait named at the type level, at a variant and at a field (sites from EduceFeatures.DisabledSites: seven shapes incl. single-field / tuple structs and '
                'unions) next to every enabled trait, so that each enabled handler\'s own attribute scan is the one that has to refuse it; distinct_nontrivial = number of non-empty subsets built',
        'samples': [builds[1], exps[0] if exps else {}],
    })
    ctx.assumptions += X_ASSUMPTIONS + ['cargo check of the proc-macro crate reports the same errors and warnings as a full build']


def disabled_site_item(en, dis, site, enabled):
    """an item that educes the enabled trait `en` (so that its handler runs) and names the disabled trait `dis` at the site"""
    pos, shape = site['pos'], site['shape']
    union = shape == 'union1'
    if union and en in ('PartialOrd', 'Ord', 'Deref', 'DerefMut', 'Into'):
        return None
    tmeta = {'Into': 'Into(u8)'}.get(en, en)
    if union and en in ('Debug', 'PartialEq', 'Hash'):
        tmeta = '%s(unsafe)' % en
    dmeta = {'Into': 'Into(u16)'}.get(dis, dis)
    tl = '#[educe(%s%s)]' % (tmeta, ', ' + dmeta if pos == 'type' else '')
    va = '#[educe(%s)] ' % dmeta if pos == 'variant' else ''
    fa = '#[educe(%s)] ' % dmeta if pos == 'field' else ''
    own = {'Deref': '#[educe(Deref)] ', 'DerefMut': '#[educe(DerefMut)] ', 'Into': '#[educe(Into(u8))] '}.get(en, '')
    dv = '#[educe(Default)] ' if en == 'Default' else ''
    if shape == 'struct1_named':
        return '%s struct T { %sa: u8 }' % (tl, fa)
    if shape == 'struct1_tuple':
        return '%s struct T(%su8);' % (tl, fa)
    if shape == 'struct2_named':
        return '%s struct T { %sa: u8, %sb: u16 }' % (tl, own, fa)
    if shape == 'enum1_named':
        return '%s enum T { %sV1 { %sa: u8 } }' % (tl, va, fa)
    if shape == 'enum1_tuple':
        return '%s enum T { %sV1(%su8) }' % (tl, va, fa)
    if shape == 'enum2':
        return '%s enum T { %s%sV1 { %sa: u8, %sb: u16 }, V2(u8) }' % (tl, dv, va, own, fa)
    if shape == 'union1':
        return '%s union T { %sa: u8 }' % (tl, fa)
    return None


# ---------------------------------------------------------------- C19
RUST_KEYWORDS = set('as break const continue crate else enum extern false fn for if impl in let loop match mod move mut pub ref return self Self static struct super trait true '
                    'type unsafe use where while async await dyn abstract become box do final macro override priv typeof unsized virtual yield try union '
                    'u8 u16 u32 u64 u128 usize i8 i16 i32 i64 i128 isize bool char str f32 f64'.split())
SHADOW_MACROS = ('#[allow(unused_macros)] macro_rules! stringify { ($($t:tt)*) => { compile_error!("user macro `stringify` reached from generated code") } } '
                 '#[allow(unused_macros)] macro_rules! unreachable { ($($t:tt)*) => { compile_error!("user macro `unreachable` reached from generated code") } } '
                 '#[allow(unused_macros)] macro_rules! write { ($($t:tt)*) => { compile_error!("user macro `write` reached from generated code") } } '
                 '#[allow(unused_macros)] macro_rules! format_args { ($($t:tt)*) => { compile_error!("user macro `format_args` reached from generated code") } } '
                 '#[allow(unused_macros)] macro_rules! matches { ($($t:tt)*) => { compile_error!("user macro `matches` reached from generated code") } } '
                 '#[allow(unused_macros)] macro_rules! panic { ($($t:tt)*) => { compile_error!("user macro `panic` reached from generated code") } } '
                 '#[allow(unused_macros)] macro_rules! concat { ($($t:tt)*) => { compile_error!("user macro `concat` reached from generated code") } } ')
SHADOW_ENV = (SHADOW_MACROS + '#[allow(dead_code, non_camel_case_types, non_snake_case, unused)] pub mod shadow { pub struct Option; pub struct Result; pub struct Ordering; pub struct Box; '
              'pub struct Vec; pub struct String; pub struct Formatter; pub struct PhantomData; pub enum Tri { Some, None, Ok, Err, Less, Equal, Greater } pub use self::Tri::*; '
              'pub trait Clone {} pub trait Copy {} pub trait Default {} pub trait Debug {} pub trait PartialEq {} pub trait Eq {} pub trait PartialOrd {} pub trait Ord {} '
              'pub trait Hash {} pub trait Hasher {} pub trait Into {} pub trait From {} pub trait Deref {} pub trait DerefMut {} pub trait Sized_ {} '
              'pub fn drop() {} pub fn size_of() {} pub mod fmt {} pub mod cmp {} pub mod hash {} pub mod mem {} pub mod slice {} pub mod marker {} '
              'pub mod core {} pub mod std {} pub mod alloc {} }')


SHADOW_NAMES = ['Option', 'Result', 'Ordering', 'Box', 'Vec', 'String', 'Formatter', 'PhantomData', 'Some', 'None', 'Ok', 'Err', 'Less', 'Equal', 'Greater',
                'Clone', 'Copy', 'Default', 'Debug', 'PartialEq', 'Eq', 'PartialOrd', 'Ord', 'Hash', 'Hasher', 'Into', 'From', 'Deref', 'DerefMut',
                'drop', 'size_of', 'fmt', 'cmp', 'hash', 'mem', 'slice', 'marker', 'core', 'std', 'alloc']


def hostile_item(h, n):
    """render one HOSTILE record as a module with the item inside the shadowing environment"""
    import re as _re
    pos, ident, kind, ts = h['pos'], h['id'], h['kind'], h['traits']
    tname = ident if pos == 'typename' else 'Tx'
    fa = ident if pos in ('field', 'derived') else 'xa'
    v1 = ident if pos == 'variant' else 'Va'
    gen = ''
    extra_named = ''
    extra_tuple = ''
    helper = ''
    if pos == 'fieldtype':
        if ident in ('Tx', 'Va', 'Vb', 'Vc', 'u8', 'u16') or not _re.match(r'^[A-Za-z_][A-Za-z0-9_]*$', ident) or ident == '_':
            return None
        helper += ('#[allow(non_camel_case_types)] #[derive(Debug, Clone, Copy, PartialEq, Eq, PartialOrd, Ord, Hash, Default)] pub struct %s { pub v: u8 } ' % ident)      # (a braced struct: a name in the type namespace only)
        extra_named, extra_tuple = ', xt: %s' % ident, ', %s' % ident
    elif pos == 'parampair':
        a, b = (h['id'], h['id2']) if h['order'] == 'taken_first' else (h['id2'], h['id'])
        sorts = h['sorts']
        decl, fn_, ft_ = [], [], []
        for nm, srt, k_ in ((a, sorts[0], 1), (b, sorts[1], 2)):
            if srt == 't':
                decl.append(nm)
                fn_.append(', xg%d: %s' % (k_, nm))
                ft_.append(', %s' % nm)
            else:
                decl.append('const %s: usize' % nm)
                fn_.append(', #[educe(Default = mk_arr())] xg%d: [u8; %s]' % (k_, nm))
                ft_.append(', [u8; %s]' % nm)
        if 'c' in sorts:
            helper += 'fn mk_arr<const K: usize>() -> [u8; K] { [0; K] } '
        gen, extra_named, extra_tuple = '<%s>' % ', '.join(decl), ''.join(fn_), ''.join(ft_)
    elif pos == 'typeparam':
        gen, extra_named, extra_tuple = '<%s>' % ident, ', xg: %s' % ident, ', %s' % ident
    elif pos == 'constparam':
        gen = '<const %s: usize>' % ident
        helper += 'fn mk_arr<const K: usize>() -> [u8; K] { [0; K] } '
        extra_named = ', #[educe(Default = mk_arr())] xg: [u8; %s]' % ident if ts == 'cmp8' else ', xg: [u8; %s]' % ident
        extra_tuple = ', [u8; %s]' % ident
    elif pos == 'lifetime':
        gen = "<'%s>" % ident
        helper += "fn mk_ref() -> &'static u8 { &0 } "
        extra_named = ", #[educe(Default = mk_ref())] xg: &'%s u8" % ident if ts == 'cmp8' else ", xg: &'%s u8" % ident
        extra_tuple = ", &'%s u8" % ident
    if ts == 'cmp8':
        traits = 'Debug, Clone, PartialEq, Eq, PartialOrd, Ord, Hash, Default'
        ma = ''
        if pos == 'method':
            helper += 'fn %s(v: &u8, x: &mut ::core::fmt::Formatter<\'_>) -> ::core::fmt::Result { ::core::fmt::Debug::fmt(v, x) } ' % ident
            ma = '#[educe(Debug(method(%s)))] ' % ident
        if kind == 'struct':
            item = '#[derive(Educe)] #[educe(%s)] struct %s%s { %s%s: u8, xb: u16%s }' % (traits, tname, gen, ma, fa, extra_named)
        else:
            item = ('#[derive(Educe)] #[educe(%s)] enum %s%s { #[educe(Default)] %s { %s%s: u8, xb: u16%s }, Vb(u8, u16%s), Vc }'
                    % (traits, tname, gen, v1, ma, fa, extra_named, extra_tuple))
    elif ts == 'intoabs':
        if pos == 'method':
            return None
        traits = 'Into(::core::primitive::u16), Into(::core::primitive::u64)'
        if kind == 'struct':
            item = ('#[derive(Educe)] #[educe(%s)] struct %s%s { #[educe(Into(::core::primitive::u16))] %s: u8, #[educe(Into(::core::primitive::u64))] xb: u16%s }'
                    % (traits, tname, gen, fa, extra_named))
        else:
            item = ('#[derive(Educe)] #[educe(%s)] enum %s%s { %s { #[educe(Into(::core::primitive::u16), Into(::core::primitive::u64))] %s: u8, xb: ::core::primitive::bool%s }, '
                    'Vb(#[educe(Into(::core::primitive::u16), Into(::core::primitive::u64))] u8, ::core::primitive::bool%s) }' % (traits, tname, gen, v1, fa, extra_named, extra_tuple))
    else:
        traits = 'Copy, Clone, Deref, DerefMut, Into(u16)'
        if pos == 'method':
            return None
        if kind == 'struct':
            item = '#[derive(Educe)] #[educe(%s)] struct %s%s { #[educe(Deref, DerefMut)] %s: u8, xb: u16%s }' % (traits, tname, gen, fa, extra_named)
        else:
            item = ('#[derive(Educe)] #[educe(%s)] enum %s%s { %s { #[educe(Deref, DerefMut)] %s: u8, xb: u16%s }, Vb(#[educe(Deref, DerefMut)] u8, u16%s) }'
                    % (traits, tname, gen, v1, fa, extra_named, extra_tuple))
    # lints about the style of the *user's own* identifier are the user's business, not the macro's: allow exactly
    # the lint the chosen identifier itself trips
    allow = []
    camel = bool(_re.match(r'^[A-Z][A-Za-z0-9]*$', ident))
    snake = bool(_re.match(r'^_*[a-z0-9]+(_[a-z0-9]+)*_*$', ident)) or ident.strip('_') == ''
    if pos in ('variant', 'typename', 'typeparam', 'parampair') and not (camel and _re.match(r'^[A-Z][A-Za-z0-9]*$', h.get('id2', 'X'))):
        allow.append('non_camel_case_types')
    if pos == 'parampair' or pos == 'constparam' and not _re.match(r'^[A-Z][A-Z0-9_]*$', ident):
        allow.append('non_upper_case_globals')
    if pos in ('field', 'method', 'lifetime', 'derived') and not snake:
        allow.append('non_snake_case')
    al = '#[allow(%s)] ' % ', '.join(allow) if allow else ''
    # the shadowing environment, minus the user's own identifier (a second item of that name in the user's scope
    # would be the user's own ambiguity)
    names = [x for x in SHADOW_NAMES if x != ident]
    return ('%smod m%d { #[allow(unused_imports)] use super::shadow::{%s}; use educe::Educe; %s%s }' % (al, n, ', '.join(names), helper, item)), item


TEMPLATE_TRAITS = ['Debug', 'Clone', 'PartialEq', 'PartialOrd', 'Ord', 'Hash', 'Default', 'PartialEq, Eq', 'PartialOrd, Ord', 'Clone, Copy',
                   'Deref', 'Deref, DerefMut', 'Into(u16)']


def learn_templates(exe):
    """how the generated code derives identifiers from the user's field names: expand reference items whose fields carry
    marker names and record every new identifier that contains a marker, as (prefix, suffix); templates seen in the
    expansion of one request share a scope."""
    import re as _re
    reqs = []
    for ts in TEMPLATE_TRAITS:
        fa = '#[educe(Deref, DerefMut)] ' if 'DerefMut' in ts else ('#[educe(Deref)] ' if 'Deref' in ts else '')
        dv = '#[educe(Default)] ' if 'Default' in ts else ''
        reqs.append('#[educe(%s)] struct Qqt { %sqqa: u8, qqb: u16 }' % (ts, fa))
        reqs.append('#[educe(%s)] enum Qqt { %sQqv { %sqqa: u8, qqb: u16 }, Qqw(%su8, u16) }' % (ts, dv, fa, fa))
    res = xchan.expand(exe, [{'id': i, 'text': t} for i, t in enumerate(reqs)])
    templates, scopes = [], []
    for r in res:
        if r['outcome'] != 'ok':
            raise ToolError('reference item refused while learning name templates: %s: %s' % (reqs[r['id']], r.get('err')))
        sc = []
        for w in sorted(set(_re.findall(r"[A-Za-z_][A-Za-z_0-9]*", r['out']))):
            for mk in ('qqa', 'qqb'):
                if mk in w and w != mk:
                    pre, suf = w.split(mk, 1)
                    t = {'pre': pre, 'suf': suf}
                    if t not in templates:
                        templates.append(t)
                    if t not in sc:
                        sc.append(t)
        if sc and sc not in scopes:
            scopes.append(sc)
    return templates, scopes


def learn_fallbacks(exe, pool):
    """fallback names: what the generated code calls its own generics when the user already holds the first choice
    (pairs [taken, fallback], recorded from real expansions)"""
    import re as _re
    identre = _re.compile(r"[A-Za-z_][A-Za-z_0-9]*")
    up = [x for x in pool if _re.match(r'^[A-Za-z][A-Za-z0-9_]*$', x) and x not in SHADOW_NAMES][:200]
    areqs = [{'id': x, 'text': '#[educe(Debug, Clone, PartialEq, Eq, PartialOrd, Ord, Hash, Default)] struct Tx<%s> { xa: u8, xg: %s }' % (x, x)} for x in up]
    atext = {q['id']: q['text'] for q in areqs}
    avoid = []
    for r in xchan.expand(exe, areqs):
        if r['outcome'] != 'ok':
            continue
        new = set(identre.findall(r['out'])) - set(identre.findall(atext[r['id']])) - set(pool)
        for a in sorted(new):
            if a not in RUST_KEYWORDS and a != '_' and not a.startswith('probes'):
                avoid.append([r['id'], a])
    return avoid


def fallback_pair_items(exe):
    """items that hold both a generated generic's first-choice name and its fallback (for C16: the choice must not
    depend on anything but the input)"""
    import re as _re
    identre = _re.compile(r"[A-Za-z_][A-Za-z_0-9]*")
    base = ['#[educe(Debug, Clone, PartialEq, Eq, PartialOrd, Ord, Hash, Default)] struct Tx { xa: u8, xb: u16 }',
            '#[educe(Debug, Clone, PartialEq, Eq, PartialOrd, Ord, Hash, Default)] enum Tx { #[educe(Default)] Va { xa: u8 }, Vb(u16) }',
            '#[educe(Copy, Clone, Deref, DerefMut, Into(u16))] struct Tx { #[educe(Deref, DerefMut)] xa: u8, xb: u16 }']
    pool = set()
    for r, t in zip(xchan.expand1(exe, [{'id': i, 'text': t} for i, t in enumerate(base)]), base):
        if r['outcome'] == 'ok':
            pool |= set(identre.findall(r['out'])) - set(identre.findall(t))
    pool = sorted(x for x in pool if x not in RUST_KEYWORDS and x != '_')
    out = []
    n = 0
    for a, b in learn_fallbacks(exe, pool):
        for order in ('taken_first', 'fallback_first'):
            for sorts in ('tt', 'tc', 'ct'):
                for kind in ('struct', 'enum'):
                    h = {'pos': 'parampair', 'id': a, 'id2': b, 'order': order, 'sorts': sorts, 'kind': kind, 'traits': 'cmp8'}
                    n += 1
                    it = hostile_item(h, n)
                    if it:
                        out.append(('pair%d' % n, it[1].replace('#[derive(Educe)] ', '')))
    return out


class HostileNamesRender(TypeRender):
    """run-time corpora of C19: every type takes its field names from a hostile pool (template-internal names, names the
    templates derive from a sibling field's name, raw identifiers)"""
    POOLS = []
    FORCED = {}

    def __init__(self, idx, cfg, prop, **kw):
        super().__init__(idx, cfg, prop, **kw)
        self.pool = self.FORCED.get(idx) or self.POOLS[idx % len(self.POOLS)]

    def item_plain(self, derive=True):
        # the style lint on the user's own field names is the user's business; the attribute sits on the type only and
        # does not reach the generated impls
        t = super().item_plain(derive)
        if t.startswith('#[derive(Educe)] '):
            return '#[derive(Educe)] #[allow(non_snake_case)] ' + t[len('#[derive(Educe)] '):]
        return '#[allow(non_snake_case)] ' + t


def hostile_pools(templates):
    pools = [['state', 'other', 'f', 'source', 'builder'], ['_0', '_f', '__f', '_s_x', 'x_'], ['r#type', 'r#match', 'r#fn', 'r#loop']]
    for t in templates:
        d = lambda u: t['pre'] + u + t['suf']
        pools.append(['x', d('x'), d(d('x')), 'y'])
        pools.append([d('y'), 'y', 'x', d(d('y'))])
        for t2 in templates:
            if t2 != t:
                pools.append(['x', t2['pre'] + d('x') + t2['suf'], d('x'), 'y'])
    return pools


class SubCtx:
    """a stage of a check with its own work directory; violations and notes go to the parent"""

    def __init__(self, parent, tag):
        self.parent = parent
        self.prop, self.tier, self.seed = parent.prop, parent.tier, parent.seed
        self.workdir = os.path.join(parent.workdir, tag)
        os.makedirs(self.workdir, exist_ok=True)
        self.coverage = {}
        self.assumptions = []
        self.only_cfg = None
        self.tag = tag

    def info(self, s):
        self.parent.info('[%s] %s' % (self.tag, s))

    def note(self, s):
        self.parent.note(s)

    def violation(self, key, payload):
        self.parent.violation(dict(key, stage=self.tag), dict(payload, stage=self.tag))


def c19_runtime(ctx, templates, candidates):
    """behaviour under hostile names: the run-time corpora of the comparison / hash / clone models, rendered with hostile
    field names, must still be explained by the specification (which does not mention names at all)"""
    HostileNamesRender.POOLS = hostile_pools(templates)
    quick = ctx.tier == 'quick'
    stages = [
        ('ord', 'MC_C03', lambda r: (['run_cmp::<%s, _>(&mut out, &dom, &all_pairs);' % r.name] + (['run_pcmp::<%s, _>(&mut out, &dom, &all_pairs);' % r.name] if 'PartialOrd' in r.traits else []))
         if 'Ord' in r.traits else ['run_pcmp::<%s, _>(&mut out, &with_nan(&dom), &all_pairs);' % r.name]),
        ('eq', 'MC_C02', lambda r: ['run_eq::<%s, _>(&mut out, &dom, &all_pairs);' % r.name]),
        ('hash', 'MC_C05', lambda r: ['run_hashes::<%s, _>(&mut out, &dom);' % r.name]),
        ('clone', 'MC_C07', lambda r: ['run_clone::<%s, _>(&mut out, &dom);' % r.name]),
    ]
    total = {'types': 0, 'events': 0, 'rejected': 0, 'states': 0, 'transitions': 0, 'mc_runs': []}
    only = getattr(ctx, 'only_stage', None)
    for tag, module, calls in stages:
        if only and tag != only:
            continue
        sub = SubCtx(ctx, tag)
        sub.only_cfg = ctx.only_cfg
        corpus = rpipe.model_check(sub, [{'module': module, 'cfg': module + '_corpus.cfg', 'workers': 8}], ['DoSeal'])
        # names only matter where two fields share a scope
        if not only:
            corpus = [c for c in corpus if any(len(v['fields']) >= 2 for v in c['variants'])]
        cap = 600 if quick else 4000
        if len(corpus) > cap:
            step = len(corpus) / float(cap)
            corpus = [corpus[int(i * step)] for i in range(cap)]
        # candidate-then-confirm: every pair of field names the model flags as a possible capture is confirmed (or cleared)
        # on the real code with a fixed battery of plain configurations: both names in one variant, no field ignored
        attr = {'ord': 'ord', 'eq': 'eq', 'hash': 'hash', 'clone': 'clone'}[tag]
        battery, kinds_seen = [], set()
        for c in corpus:
            if not any(len(v['fields']) >= 2 and v['style'] == 'named' for v in c['variants']):
                continue
            if any(f.get(attr, 'own') != 'own' or f.get('rank', -999) != -999 for v in c['variants'] for f in v['fields']):
                continue
            sig = (c['kind'], tuple(c['opts']['traits']), c['opts'].get('ordvia'), c['opts'].get('eqvia'))
            if sig in kinds_seen:
                continue
            kinds_seen.add(sig)
            battery.append(c)
        HostileNamesRender.FORCED = {1: ctx.only_names} if only else {}
        for pair in candidates[:40]:
            for c in battery[:10]:
                corpus.append(c)
                HostileNamesRender.FORCED[len(corpus)] = [pair[0], pair[1], 'y', 'z']
        corpus_path = os.path.join(sub.workdir, 'corpus.ndjson')
        rpipe.write_ndjson(corpus_path, corpus)
        renders = [HostileNamesRender(i, c, 'C19') for i, c in enumerate(corpus, 1)]
        trace, dropped = rpipe.build_and_run(sub, 'C19_' + tag, renders, calls, [0, 1])
        for idx, msgs in sorted(dropped.items()):
            ctx.violation({'kind': 'hostile-names-do-not-compile', 'stage': tag, 'cfg': corpus[idx - 1], 'names': renders[idx - 1].pool},
                          {'what': 'with these field names the generated impl does not compile cleanly', 'source': renders[idx - 1].item(), 'diagnostics': msgs})
        res = rpipe.validate_trace(sub, corpus_path, trace)
        recs = rpipe.load_lines(trace, res['bad'])
        seen = set()
        for ln in res['bad']:
            e = recs[ln]
            if e['t'] in seen:
                continue
            seen.add(e['t'])
            r = renders[e['t'] - 1]
            ctx.violation({'kind': 'hostile-names-change-behaviour', 'stage': tag, 'cfg': corpus[e['t'] - 1], 'names': r.pool},
                          {'what': 'with these field names the derived impl behaves differently from what the specification (which is name-independent) allows',
                           'source': r.item(), 'event': e})
        total['types'] += len(corpus)
        total['events'] += res['n']
        total['rejected'] += len(res['bad'])
        total['states'] += sub.coverage.get('states', 0)
        total['transitions'] += sub.coverage.get('transitions', 0)
        total['mc_runs'] += sub.coverage.get('mc_runs', [])
    return total


def c19(ctx):
    import cases
    import re as _re
    if getattr(ctx, 'only_cfg', None) is not None and getattr(ctx, 'only_stage', None):
        # replay of one recorded run-time violation: that configuration with those field names
        c19_runtime(ctx, [], [])
        return
    quick = ctx.tier == 'quick'
    # 1. the identifier pool, recorded from real expansions
    corpus = rpipe.model_check(ctx, [{'module': 'MC_C01', 'cfg': 'MC_C01_quick.cfg', 'workers': 8}], ['Seal'])
    exe = xchan.build(ctx)
    reqs = []
    for i, c in enumerate(corpus, 1):
        r = MultiRender(i, c, 'C19', canonical=True, name='T')
        reqs.append({'id': i, 'text': r.item(derive=False)})
    extra = ['#[educe(Copy, Clone, Deref, DerefMut, Into(u16))] struct T { #[educe(Deref, DerefMut)] f1: u8, f2: u16 }',
             '#[educe(Copy, Clone, Deref, DerefMut, Into(u16))] enum T { V1 { #[educe(Deref, DerefMut)] f1: u8, f2: u16 }, V2(#[educe(Deref, DerefMut)] u8, u16) }',
             '#[educe(Debug(unsafe), PartialEq(unsafe), Hash(unsafe), Clone, Copy, Default)] union T { f1: u8 }',
             '#[educe(Debug(name = false))] struct T { #[educe(Debug(method(m)))] f1: u8 }']
    reqs += [{'id': 'x%d' % k, 'text': t} for k, t in enumerate(extra)]
    identre = _re.compile(r"[A-Za-z_][A-Za-z_0-9]*")
    pool = set()
    for r, q in zip(xchan.expand(exe, reqs), reqs):
        if r['outcome'] != 'ok':
            continue
        pool |= set(identre.findall(r['out'])) - set(identre.findall(q['text']))
    pool = sorted(x for x in pool if x not in RUST_KEYWORDS and not x.startswith('probes') and x != '_')
    lower = [x for x in pool if x[0].islower() or x[0] == '_']
    facts_path = os.path.join(ctx.workdir, 'facts.json')
    templates, scopes = learn_templates(exe)
    avoid = learn_fallbacks(exe, pool)
    json.dump({'pool': pool, 'lower': lower, 'templates': templates, 'scopes': scopes, 'avoid': avoid}, open(facts_path, 'w'))
    ctx.info('fallback names recorded: %s' % ', '.join('%s->%s' % (a, b) for a, b in avoid))
    ctx.info('name templates recorded: %s' % ', '.join(t['pre'] + '<field>' + t['suf'] for t in templates))
    ctx.info('identifier pool recorded from %d expansions: %d identifiers' % (len(reqs), len(pool)))
    st = dict(ctx.coverage)
    res = tlcmod.run_mc('MC_C19', 'MC_C19.cfg', ctx.workdir, workers=4, timeout=600, tags=('HOSTILE', 'CAPTURES'), heap='4g', extra_env={'FACTS': facts_path})
    if not res['ok']:
        raise ToolError('MC_C19 failed:\n' + '\n'.join(res['text'].split('\n')[-30:]))
    ctx.coverage['states'] = st['states'] + res['stats'].get('distinct', 0)
    ctx.coverage['transitions'] = st['transitions'] + res['stats'].get('generated', 0)
    ctx.coverage['mc_runs'] = st['mc_runs'] + [{'module': 'MC_C19', 'cfg': 'MC_C19.cfg', 'stats': res['stats']}]
    hostile = []
    seen = set()
    for h in res['tagged']['HOSTILE']:
        k = json.dumps(h, sort_keys=True)
        if k not in seen:
            seen.add(k)
            hostile.append(h)
    if not set(pool) <= set(h['id'] for h in hostile):
        raise ToolError('MC_C19 did not use every pool identifier')
    rendered = []
    for n, h in enumerate(hostile):
        out = hostile_item(h, n)
        if out:
            rendered.append((h, out[0], out[1]))
    # in-process: accepted?
    acc = xchan.expand(exe, [{'id': i, 'text': it[2].replace('#[derive(Educe)] ', '')} for i, it in enumerate(rendered)])
    acc = {r['id']: r for r in acc}
    per = {}
    for variant, head in (('hostile', '#![allow(dead_code)]\n' + SHADOW_ENV), ('nostd', '#![no_std]\n#![allow(dead_code)]\n' + SHADOW_ENV)):
        lines = head.split('\n')
        line_of = {}
        for i, (h, mod_text, item) in enumerate(rendered):
            lines.append(mod_text)
            line_of[len(lines)] = i
        if variant == 'hostile':
            lines.append('fn main() {}')
            d = cases.write_crate('C19', '\n'.join(lines) + '\n')
        else:
            d = cases.crate_dir('C19_nostd')
            os.makedirs(os.path.join(d, 'src'), exist_ok=True)
            cases._write_if_changed(os.path.join(d, 'Cargo.toml'), '[package]\nname = "cases_c19_nostd"\nversion = "0.0.0"\nedition = "2021"\npublish = false\n\n[workspace]\n\n'
                                    '[lib]\npath = "src/lib.rs"\n\n[dependencies]\neduce = { path = "/repo" }\n\n[profile.dev]\ndebug = false\nincremental = false\n')
            os.makedirs(os.path.join(d, '.cargo'), exist_ok=True)
            cases._write_if_changed(os.path.join(d, '.cargo', 'config.toml'), '[net]\noffline = true\n[build]\ntarget-dir = "../../target"\n')
            cases._write_if_changed(os.path.join(d, 'src', 'lib.rs'), '\n'.join(lines) + '\n')
            cases.ensure_lock(d)
        ok, diags, exe2, wall, stderr = cases.cargo_build(d)
        ctx.info('cargo build C19 (%s): ok=%s, %d diagnostics, %.1fs' % (variant, ok, len(diags), wall))
        attributed = 0
        for m in diags:
            msg = m.get('message', {})
            lvl = msg.get('level')
            if lvl not in ('error', 'warning'):
                continue
            hit = None
            for sp0 in msg.get('spans', []):
                # (the head lines hold the shadowing items: a diagnostic inside a user macro is attributed to the
                #  derive it was expanded from)
                for sp in rpipe.span_chain(sp0):
                    if sp.get('line_start') in line_of:
                        hit = line_of[sp['line_start']]
                        break
                if hit is not None:
                    break
            if hit is None:
                if lvl == 'error' and not msg.get('message', '').startswith('aborting due to'):
                    raise ToolError('unattributable rustc error (%s): %s' % (variant, (msg.get('rendered') or msg.get('message'))[:1500]))
                continue
            attributed += 1
            p_ = per.setdefault((variant, hit), {'errors': [], 'warnings': 0, 'msgs': []})
            if lvl == 'error':
                p_['errors'].append((msg.get('code') or {}).get('code') or msg.get('message', '')[:80])
            else:
                p_['warnings'] += 1
            p_['msgs'].append((msg.get('rendered') or msg.get('message', ''))[:1200])
        if not ok and attributed == 0:
            raise ToolError('cargo build (%s) failed without attributable errors:\n%s' % (variant, stderr[-2000:]))
    trace = os.path.join(ctx.workdir, 'ktrace.ndjson')
    recs = []
    with open(trace, 'w') as f:
        for variant in ('hostile', 'nostd'):
            for i in range(len(rendered)):
                p_ = per.get((variant, i), {'errors': [], 'warnings': 0, 'msgs': []})
                e = {'t': i + 1, 'op': 'compile', 'context': variant, 'expand': acc[i]['outcome'], 'errors': p_['errors'], 'warnings': p_['warnings']}
                recs.append((variant, i, p_))
                f.write(json.dumps(e, separators=(',', ':')) + '\n')
    tr = tlcmod.run_trace('TraceK', 'TraceK.cfg', ctx.workdir, {'TRACE': trace})
    if not tr['consumed']:
        raise ToolError('TraceK did not consume the trace:\n' + '\n'.join(tr['text'].split('\n')[-30:]))
    ctx.info('K trace validated: %d records, %d rejected' % (tr['n'], len(tr['bad'])))
    done = set()
    for ln in tr['bad']:
        variant, i, p_ = recs[ln - 1]
        h = rendered[i][0]
        key = {'kind': 'hostile-name', 'pos': h['pos'], 'id': h['id']}
        if h['pos'] == 'parampair':
            key.update({'id2': h['id2'], 'order': h['order'], 'sorts': h['sorts']})
        kk = json.dumps(key, sort_keys=True)
        if kk in done:
            continue
        done.add(kk)
        ctx.violation(key, {'what': 'the derive does not compile cleanly (or is refused) when a user identifier coincides with a name the generated code uses, '
                                    'inside a module shadowing prelude names / in a #![no_std] crate', 'context': variant, 'source': rendered[i][2],
                            'shape': h['kind'], 'traits': h['traits'],
                            'in_process': {'outcome': acc[i]['outcome'], 'err': acc[i].get('err')}, 'rustc': p_['msgs'][:4]})
    caps = res['tagged'].get('CAPTURES', [{}])[0]
    if caps.get('n', 0):
        ctx.note('capture candidates predicted by the model (pairs of field names whose derived bindings coincide in one scope): %s' % json.dumps(caps.get('pairs'))[:600])
    ctx.info('run-time stage: behaviour under hostile field names')
    cand = [p for p in (caps.get('pairs') or []) if all(_re.match(r'^[a-z_][a-z_0-9]*$', x) for x in p)]
    rt = c19_runtime(ctx, templates, cand)
    ctx.coverage['states'] = ctx.coverage.get('states', 0) + rt['states']
    ctx.coverage['transitions'] = ctx.coverage.get('transitions', 0) + rt['transitions']
    ctx.coverage['mc_runs'] = ctx.coverage.get('mc_runs', []) + rt['mc_runs']
    ctx.coverage.update({
        'traces_validated_against_impl': tr['n'] - len(tr['bad']) + rt['events'] - rt['rejected'], 'trace_files': 5, 'trace_events': tr['n'] + rt['events'],
        'trace_events_rejected': len(tr['bad']) + rt['rejected'],
        'programs': len(rendered) + rt['types'], 'evaluations': tr['n'] + rt['events'], 'distinct_nontrivial': len(rendered) + rt['types'],
        'identifier_pool': pool, 'name_templates': [t['pre'] + '<field>' + t['suf'] for t in templates], 'capture_candidates': caps.get('n', 0),
        'runtime_types_with_hostile_names': rt['types'], 'runtime_events': rt['events'],
        'rule': 'identifier pool = every identifier occurring in real expansions but not in their inputs (recorded at check time); TLC enumerates pool identifier x namespace '
                'position {field, variant, type parameter, const parameter, lifetime, type name, custom method name} x {struct, enum} x two trait sets; every item is compiled '
                'inside a module that shadows Option/Some/None/Result/Ok/Err/Ordering/Clone/Default/Debug/... and again in a #![no_std] crate; it must be accepted and compile '
                'without errors or warnings. Name templates (how bindings are derived from the user\'s field names: prefix/suffix pairs) are recorded from real expansions too; TLC adds a field '
                'named like every first- and second-order derivation of its sibling, and lists capture candidates (two field names whose derived bindings coincide within one trait). '
                'Run-time stage: the PartialOrd/Ord, PartialEq, Hash and Clone run-time corpora (types with a multi-field variant) are rendered with hostile field-name pools '
                '(template-internal names, derived names of a sibling in both orders, raw identifiers), run, and validated against the name-independent specification (TraceR).',
        'samples': [{'source': rendered[0][1]}, {'source': rendered[len(rendered) // 2][1]}],
    })
    ctx.assumptions += COMMON_ASSUMPTIONS + ['the specification contributes the quantifier and the expectation only; Rust name resolution is not modelled (DESIGN.md section 10)']


import tlc as _tlc_for_paths
ROOT_WORK = _tlc_for_paths.WORK


REGISTRY = {
    'C18': c18,
    'C19': c19,
    'C01': c01,
    'C12': c12,
    'C11': c11,
    'C13': c13,
    'C17': c17,
    'C16': c16,
    'C15': c15,
    'C14': c14,
    'C20': c20,
    'C10': c10,
    'C09': c09,
    'C08': c08,
    'C06': c06,
    'C07': c07,
    'C04': c04,
    'C05': c05,
    'C03': c03,
    'C02': c02,
}
