"""./check selftest: demonstrates the binding between specification and recorded traces.

For every trace specification: take the trace the last quick run of a property recorded, corrupt ONE field of ONE
record (or drop one logged call), and require that TLC rejects exactly that record.  Exit 0 iff every corruption is caught.
"""
import copy
import json
import os
import random

import tlc

ROOT = os.path.dirname(os.path.dirname(os.path.abspath(__file__)))
WORK = os.path.join(ROOT, 'work')

# (property, trace file, trace module, cfg, needs corpus, corruption)
def flip_ret(e):
    if e.get('op') == 'eq':
        e['ret'] = not e['ret']
        return True
    if e.get('op') in ('cmp', 'partial_cmp') and e.get('ret') in ('Less', 'Greater'):
        e['ret'] = 'Equal'
        return True
    return False


def drop_call(e):
    if e.get('calls'):
        e['calls'] = e['calls'][:-1]
        return e.get('op') in ('cmp', 'partial_cmp', 'clone') or (e.get('op') == 'eq' and e.get('ret') is True)
    return False


def swap_sides(e):
    if e.get('op') in ('eq', 'cmp', 'partial_cmp') and e.get('calls'):
        c = e['calls'][0]
        c[2], c[5] = c[5], c[2]
        return True
    return False


def hash_feed(e):
    # two values that fed different data now feed the same: the feed is no longer injective on the key
    if e.get('op') == 'hashes' and e.get('obs'):
        for j in range(1, len(e['obs'])):
            if e['obs'][j]['feed'] != e['obs'][0]['feed']:
                e['obs'][0]['feed'] = list(e['obs'][j]['feed'])
                return True
    return False


def fmt_text(e):
    if e.get('op') == 'fmt':
        e['pretty'] = e['pretty'].replace(',|', '|', 1) if ',|' in e['pretty'] else e['pretty'] + ' '
        return True
    return False


def finger(e):
    if e.get('op') in ('clone', 'clone_from', 'default') and e.get('res') and e['res'][1]:
        e['res'][1][0][2] += 1
        return True
    return False


def deref_idx(e):
    if e.get('op') == 'deref':
        e['di'] = e['di'] % 3 + 1 if len(e['a']['f']) > 1 else 0
        return True
    return False


def into_gen(e):
    if e.get('op') == 'into':
        e['res'][3] = (e['res'][3] + 3) % 6
        return True
    return False


def union_eq(e):
    if e.get('op') == 'union' and e.get('eqs'):
        e['eqs'][0][1] = not e['eqs'][0][1]
        return True
    return False


def layout(e):
    if e.get('op') == 'cmp_layout' and e.get('prets'):
        e['prets'][-1] = 'Equal' if e['prets'][-1] != 'Equal' else 'Less'
        return True
    return False


def applies(e):
    if e.get('op') == 'applies':
        e['val'] = not e['val']
        return True
    return False


def implwhere(e):
    if e.get('op') == 'impl':
        e['where'] = e['where'] + ['T:Extra']
        return True
    return False


def outcome(e):
    if e.get('mode') in ('expect', 'total'):
        e['outcome'] = 'panic'
        return True
    if e.get('mode') == 'same' and not e.get('reset'):
        e['out'] = e['out'][::-1] + 'x'
        return True
    return False


def compile_warn(e):
    if e.get('op') == 'compile':
        e['warnings'] = 1
        return True
    return False


def build_warn(e):
    if e.get('op') == 'build' and e.get('features'):
        e['warnings'] = 1
        return True
    if e.get('op') == 'expand':
        e['out'] = 'x' + e['out']
        return True
    return False


CASES = [
    ('C02', 'trace.ndjson', 'TraceR', 'TraceR.cfg', True, [flip_ret, drop_call, swap_sides]),
    ('C03', 'trace.ndjson', 'TraceR', 'TraceR.cfg', True, [flip_ret, drop_call, swap_sides]),
    ('C04', 'trace.ndjson', 'TraceR', 'TraceR.cfg', True, [layout]),
    ('C05', 'trace.ndjson', 'TraceR', 'TraceR.cfg', True, [hash_feed]),
    ('C06', 'trace.ndjson', 'TraceR', 'TraceR.cfg', True, [fmt_text]),
    ('C07', 'trace.ndjson', 'TraceR', 'TraceR.cfg', True, [finger, drop_call]),
    ('C08', 'trace.ndjson', 'TraceR', 'TraceR.cfg', True, [finger]),
    ('C09', 'trace.ndjson', 'TraceR', 'TraceR.cfg', True, [deref_idx]),
    ('C10', 'trace.ndjson', 'TraceR', 'TraceR.cfg', True, [into_gen]),
    ('C20', 'trace.ndjson', 'TraceR', 'TraceR.cfg', True, [union_eq]),
    ('C11', 'trace.ndjson', 'TraceB', 'TraceB.cfg', True, [applies]),
    ('C12', 'trace.ndjson', 'TraceB', 'TraceB.cfg', True, [implwhere]),
    ('C13', 'xtrace.ndjson', 'TraceX', 'TraceX.cfg', False, [outcome]),
    ('C14', 'xtrace.ndjson', 'TraceX', 'TraceX.cfg', False, [outcome]),
    ('C15', 'xtrace.ndjson', 'TraceX', 'TraceX.cfg', False, [outcome]),
    ('C16', 'xtrace.ndjson', 'TraceX', 'TraceX.cfg', False, [outcome]),
    ('C17', 'xtrace.ndjson', 'TraceX', 'TraceX.cfg', False, [outcome]),
    ('C01', 'ktrace.ndjson', 'TraceK', 'TraceK.cfg', False, [compile_warn]),
    ('C19', 'ktrace.ndjson', 'TraceK', 'TraceK.cfg', False, [compile_warn]),
    ('C18', 'ftrace.ndjson', 'TraceF', 'TraceF.cfg', False, [build_warn]),
]


def main():
    rnd = random.Random(7)
    failures = 0
    rows = []
    for prop, fname, mod, cfg, needs_corpus, corruptions in CASES:
        d = os.path.join(WORK, '%s_quick' % prop)
        path = os.path.join(d, fname)
        if not os.path.exists(path):
            print('SKIP %s: no recorded trace (run ./check run %s first)' % (prop, prop))
            continue
        lines = open(path).read().split('\n')
        lines = [l for l in lines if l.strip()]
        # keep validation fast: a window of the trace around the corrupted record (TraceX "same" needs the group start)
        for cor in corruptions:
            order = list(range(len(lines)))
            rnd.shuffle(order)
            hit = None
            for i in order[:5000]:
                e = json.loads(lines[i])
                e2 = copy.deepcopy(e)
                if cor(e2) and e2 != e:
                    hit = (i, e2)
                    break
            if hit is None:
                print('SKIP %s/%s: no applicable record' % (prop, cor.__name__))
                continue
            i, e2 = hit
            lo = max(0, i - 400)
            # TraceX groups: start the window at a reset record or at 0
            if mod == 'TraceX':
                lo = 0 if prop in ('C16',) else lo
                while lo > 0 and not json.loads(lines[lo]).get('reset') and json.loads(lines[lo]).get('mode') == 'same':
                    lo -= 1
            window = lines[lo:i] + [json.dumps(e2, separators=(',', ':'))] + lines[i + 1:i + 50]
            tpath = os.path.join(d, 'selftest_' + fname)
            open(tpath, 'w').write('\n'.join(window) + '\n')
            env = {'TRACE': tpath}
            if needs_corpus:
                env['TYPES'] = os.path.join(d, 'corpus.ndjson')
            res = tlc.run_trace(mod, cfg, d, env)
            expected = i - lo + 1
            ok = res['consumed'] and res['bad'] is not None and expected in res['bad']
            rows.append((prop, mod, cor.__name__, 'rejected' if ok else 'NOT REJECTED', res.get('bad')))
            print('%-4s %-7s %-12s record %d corrupted -> %s' % (prop, mod, cor.__name__, i + 1, 'rejected' if ok else 'NOT REJECTED (bad=%s)' % res.get('bad')))
            if not ok:
                failures += 1
    print('selftest: %d corruptions, %d not caught' % (len(rows), failures))
    return 1 if failures else 0
