#!/usr/bin/env python3
"""Regenerates MANIFEST.json from the table below (single source of truth for the interface)."""
import json
import os
import subprocess

ROOT = os.path.dirname(os.path.dirname(os.path.abspath(__file__)))

TB_R = ('TLC 1.8 + CommunityModules (Json, IOUtils); the renderer lib/render.py from abstract configuration to Rust source; '
        'the probe crate harness/rt/probes (logging field types, custom methods, recording hasher/formatter); rustc 1.95 as the '
        'arbiter of what the generated code does. Bounded: shapes, value domain and attribute alphabet as stated in the evidence file.')
TB_X = ('TLC 1.8 + CommunityModules; the in-process expansion harness harness/inproc (the crate itself compiled under '
        '--cfg magiclen_educe_verif, proc_macro2 in fallback mode; candidates found there are confirmed through the real compiler '
        'before they are reported); the renderer from abstract input to tokens.')

CHECKS = {
    'C02': dict(
        technique='TLA+ spec (EduceRun.PropEq/ImplEqStep, MC_C02) model-checked with TLC; TLC-enumerated corpus compiled with the real derive; '
                  'probe call traces validated by TLC against TraceR.tla',
        text='TLC checks on the bounded model that the emitted comparison chain equals the declarative field-wise equality, that ignored fields are '
             'irrelevant and that the laws hold; every configuration TLC reaches becomes a real #[derive(Educe)] type whose == / != are executed on all '
             'ordered value pairs, and every recorded call (operands, probe calls, result) must be explained by PropEq in a TLC trace-validation run.',
        design_ref='DESIGN.md section 6 (C02), sections 3-5', note=TB_R),
    'C03': dict(
        technique='TLA+ spec (EduceRun.CmpDecl/ImplCmpStep/PropCmp, MC_C03) model-checked with TLC; TLC-enumerated corpus compiled with the real derive; '
                  'probe call traces validated by TLC against TraceR.tla',
        text='TLC checks that the emitted rank-ordered chain equals the declarative lexicographic order (None propagation, ignored fields irrelevant, total-order laws, '
             'partial_cmp = Some(cmp) by construction of OrdFn); every reachable configuration (ranks in every spelling, the four ways to educe ordering) is compiled and '
             'cmp/partial_cmp run on all ordered pairs incl. an incomparable value; each recorded call must be justified along the rank order by PropCmp.',
        design_ref='DESIGN.md section 6 (C03)', note=TB_R),
    'C04': dict(
        technique='TLA+ spec (EduceRun.Disc/CmpDecl, MC_C04) model-checked with TLC; TLC-enumerated enum corpus (discriminants x repr x payload types) compiled with the '
                  'real derive; results under three neighbour-byte placements validated by TLC (TraceR.PropCmpResults)',
        text='The specification orders variants by Disc (explicit literal or previous+1) and contains no layout; TLC checks the emitted algorithm against it. The harness '
             'supplies the layout matrix: payloads with niches/zero size, #[repr] variants, each comparison repeated with the operands written into cells pre-filled with '
             'different byte patterns; every observed result must equal the declarative one.',
        design_ref='DESIGN.md section 6 (C04)', note=TB_R + ' Memory layout itself is outside TLA+; see DESIGN.md section 10.'),
    'C05': dict(
        technique='TLA+ spec (EduceRun.ImplHashStep/PropHashAll, MC_C05) model-checked with TLC; corpus compiled with the real derive; recording-hasher feeds validated by TLC',
        text='TLC checks that the emitted feed (variant prefix + field feeds in declaration order) is a function of, and injective on, (variant, non-ignored fields) and that '
             'a == b implies equal feeds; for every reachable configuration every value is hashed into a recording Hasher and the whole observation set is judged over all '
             'pairs of values by PropHashAll (the prefix is not assumed, only functional/injective behaviour).',
        design_ref='DESIGN.md section 6 (C05)', note=TB_R),
    'C06': dict(
        technique='TLA+ spec (EduceRun.RenderDebug/PropDebug, MC_C06) model-checked with TLC; TLC-enumerated corpus compiled with the real derive; formatter output and field fmt calls validated by TLC against TraceR.tla',
        text='The specification derives the effective shape (name resolution incl. Enum::Variant, keys, style, bare map/tuple forms) and renders it with an in-spec renderer of core::fmt builder output in compact and pretty mode; TLC checks the builder-protocol machine and that the text is injective on shown fields. Every reachable configuration (t-way bounded) is compiled; every value is formatted with {:?} and {:#?}; text and field fmt calls must equal the specification, and parameter-free types must match a #[derive(Debug)] twin byte for byte.',
        design_ref='DESIGN.md section 6 (C06)', note=TB_R),
    'C07': dict(
        technique='TLA+ spec (EduceRun.ImplCloneStep/PropClone/PropCloneFrom, MC_C07) model-checked with TLC; TLC-enumerated corpus compiled with the real derive; per-field fingerprints and clone calls validated by TLC against TraceR.tla',
        text='TLC checks that the emitted clone / clone_from machines (same-variant fast path, *self = source.clone() fallback, bitwise plan under Copy) satisfy the declarative field-by-field meaning for all ordered pairs; on the implementation every clone() and clone_from() result is observed as per-field provenance fingerprints (origin, value, own clone / clone_from / method / untouched) and judged by PropClone/PropCloneFrom; Copy is asserted at compile time.',
        design_ref='DESIGN.md section 6 (C07)', note=TB_R),
    'C08': dict(
        technique='TLA+ spec (EduceRun.DefaultPlan/PropDefault, MC_C08) model-checked with TLC; TLC-enumerated corpus compiled with the real derive; fingerprints of T::default()/T::new() validated by TLC against TraceR.tla',
        text='The specification resolves the designation (type expression > marked/only variant or union field; per-field literal / expression / Default::default()) and steps it as a designation machine; every reachable configuration (marker positions, literal kinds x natural / non-natural field types, spellings, new, type-level expression, stacked bystander attributes) is compiled and T::default(), T::new() are observed as per-field fingerprints plus the count of From<literal> conversions.',
        design_ref='DESIGN.md section 6 (C08)', note=TB_R),
    'C09': dict(
        technique='TLA+ spec (EduceRun.DerefField/DMutField/PropDeref, MC_C09) model-checked with TLC; TLC-enumerated corpus compiled with the real derive; pointer-identity observations validated by TLC against TraceR.tla',
        text='TLC checks the marker-scan machine against the declarative designation for every placement of the independent Deref and DerefMut markers; on the implementation, pointer identity tells which field &*x and &mut *x refer to (referent for reference fields), and the fingerprint of all fields after a write through &mut *x shows that only the designated field changed.',
        design_ref='DESIGN.md section 6 (C09)', note=TB_R),
    'C10': dict(
        technique='TLA+ spec (EduceRun.IntoField/IntoMode/PropInto, MC_C10) model-checked with TLC; TLC-enumerated corpus compiled with the real derive; provenance of returned values validated by TLC against TraceR.tla',
        text='TLC checks the per-(target, variant) resolution machine (sole field, marker, unique same-typed field) against the declarative designation; for every reachable configuration x.into() is run for every requested target on every value and the provenance of the returned value (which field; unchanged / From / method) must equal the plan.',
        design_ref='DESIGN.md section 6 (C10)', note=TB_R),
    'C20': dict(
        technique='TLA+ spec (EduceRun.RenderUnion/PropUnion, MC_C20) model-checked with TLC; TLC-enumerated corpus compiled with the real derive; byte-level observations validated by TLC against TraceR.tla',
        text="The specification models each union impl as a function of the size_of::<Self>() bytes (in-spec renderer of the Debug byte list under the effective name, byte-sequence equality, the slice's own hash feed, bitwise clone); TLC checks the byte-view machine and injectivity of the text; every union shape is compiled and every byte pattern observed. The `unsafe` gating is decided on the expansion channel (C13 corpus).",
        design_ref='DESIGN.md section 6 (C20)', note=TB_R),
    'C13': dict(
        technique='TLA+ scanner specification (EduceScan.Verdict / ScanStep, MC_C13) model-checked with TLC; every (context, meta) pair TLC enumerates is injected into a real item and expanded by the real macro entry point; outcomes validated by TLC against TraceX.tla',
        text='The attribute scanner is specified as tables (which form / parameter / value kind each trait accepts at each position) plus the parameter-loop step machine with its *_is_set flags; TLC checks machine = table and termination, and emits ~50k inputs with their verdict; structural classes (duplicate traits/ranks/targets, missing or duplicate designations, unions, unit variants, unprintable Debug shapes) come from a second corpus over positions and spellings. Every input that must be refused has to produce a diagnostic (not a panic, not silent acceptance); every input that must be accepted has to expand.',
        design_ref='DESIGN.md section 6 (C13)', note=TB_X),
    'C14': dict(
        technique='TLA+ spelling table (EduceSpell) and site enumeration (MC_C14.SitesOf) checked with TLC; spelling groups rendered from the table and expanded by the real macro entry point; token equality inside each group validated by TLC against TraceX.tla (learned first member)',
        text='The specification owns the spelling dimension: every class lists all ways to write one request (the renderer takes its templates from TLC output); for every multi-trait configuration TLC lists the spelling sites, the harness cross-checks them against the renderer (generator echo) and expands one group per site with every member of the class; all members must be accepted and token-identical.',
        design_ref='DESIGN.md section 6 (C14)', note=TB_X),
    'C15': dict(
        technique="TLA+ spec (MC_C15: Restrict / PlanOf over EduceMulti) model-checked with TLC; for every (configuration, trait) pair the full and the restricted item are expanded by the real macro entry point; token equality of the trait's impl items validated by TLC against TraceX.tla",
        text="TLC checks on the specification that each trait's plan is unchanged when all other traits' settings are reset (and that the restriction stays acceptable); the harness expands the full configuration (canonical and with mixed spelling / order / attribute splitting) and the restricted one and requires the impl items of the trait to be token-identical.",
        design_ref='DESIGN.md section 6 (C15)', note=TB_X),
    'C16': dict(
        technique='TLA+ emission model (MC_C16, self-composition with a process-history dimension; the hashed-map and the per-process-memo configurations kept as expected counterexamples) model-checked with TLC; repeated in-process and cross-process expansions of TLC-enumerated inputs validated by TLC against TraceX.tla',
        text='The specification runs two expansions of the same input side by side: with key-ordered iteration of the Into target map they always agree, with hash-map iteration TLC produces the two-target counterexample (checked on every run as a regression test of the model). Every input (all subsets of four Into targets x shapes x attribute orders, plus the multi-trait corpus) is expanded several times in one process and in several fresh processes with different histories; all token streams of one input must be equal.',
        design_ref='DESIGN.md section 6 (C16)', note=TB_X),
    'C17': dict(
        technique='TLA+ scanner specification (termination / verdict in {ok, err} for every abstract input, MC_C13) model-checked with TLC; all model inputs, the type-expression grammar (EduceTypes.tla) and the degenerate-shape model (EduceShapes.tla: empty bodies / variant lists / field lists under every trait request) plus seeded token-level mutations and stress inputs expanded by the real macro entry point in a guarded child; outcomes validated by TLC against TraceX.tla; candidates confirmed through the real compiler',
        text='The scanner specification terminates with ok/err on every abstract input including every value kind at every parameter; the harness runs all of them, the structural negatives, every type expression and every degenerate shape (EduceTypes / EduceShapes), seeded token mutations and depth/length stress inputs through the real entry point under catch_unwind with a timeout and a 64 MB stack; anything other than items or a diagnostic is a candidate that is confirmed with the real compiler (proc-macro panicked) before it is reported.',
        design_ref='DESIGN.md section 6 (C17)', note=TB_X),
    'C11': dict(
        technique='TLA+ spec (EduceBounds.Delegated/Supers/Applies, MC_C11) model-checked with TLC; TLC-enumerated generic corpus compiled with the real derive; '
                  'compile-time applicability probes (does the impl apply to Type<Args>?) validated by TLC against TraceB.tla',
        text='The specification defines, per trait, the delegated fields and required supertraits and a small model of trait resolution for the field type classes; TLC checks '
             'that unused parameters never influence applicability, that companions agree with their primary and that all-implementing arguments always apply. Every reachable '
             'generic configuration is compiled and, for every educed trait and every assignment of implementing / non-implementing argument types, the real compiler\'s answer '
             'must equal Applies.',
        design_ref='DESIGN.md section 6 (C11)', note=TB_R),
    'C12': dict(
        technique='TLA+ spec (EduceBounds.WhereSet/ImplParams/EmittedTraits, MC_C12) model-checked with TLC; TLC-enumerated inputs expanded by the real macro entry point; '
                  'every impl item (generic parameters, where-predicates) and the item list validated by TLC against TraceB.tla',
        text='The specification states, for each bound mode (auto, bool, *, custom, disabled; per Into target), exactly which predicates an impl\'s where-clause consists of next '
             'to the user\'s own, and that the impl header repeats the type\'s parameters minus defaults; TLC checks the modes against their definitions and that companions share '
             'the primary\'s set. Every configuration (three generics descriptors: plain <T, U>; lifetime + const + bounded, defaulted type parameter + where-clause; two lifetimes with an outlives bound, ?Sized + multi-bound parameter, defaulted const and type parameters, where-clause over compound types) is expanded and every '
             'impl item must carry exactly those parameters and predicates, and the item list must be exactly the educed traits and requested Into targets.',
        design_ref='DESIGN.md section 6 (C12)', note=TB_X),
    'C01': dict(
        technique='TLA+ specification of acceptability (EduceMulti.MultiAdmissible over the per-trait specs; EduceBounds headers) enumerated with TLC (MC_C01, MC_C12); every '
                  'enumerated item compiled with the real compiler and expanded in process; per-item compile records validated by TLC against TraceK.tla',
        text='The specification says which multi-trait requests must be accepted; TLC enumerates them (t-way attribute settings, every spelling and name pool), together with the '
             'generic-header / bound-mode corpus and a list of special shapes; each item must be accepted by the macro and compile with the real compiler without errors or '
             'warnings (only dead_code allowed). A further stage takes every well-typed field type of the type-expression grammar (EduceTypes.tla, Mode "typed": which std traits a type implements is computed structurally) and educes exactly those traits on it. The single-trait, #[repr]/discriminant, Deref and Into shapes are compiled, and reported in the same way, by C02-C10 and C20.',
        design_ref='DESIGN.md section 6 (C01)', note=TB_R + ' ' + TB_X),
    'C18': dict(
        technique='TLA+ gating model (EduceFeatures) over facts extracted from the source at check time, checked by TLC for all 4095 feature subsets; real cargo check per subset and '
                  'per-subset in-process expansions against the all-features build, validated by TLC against TraceF.tla',
        text='The cfg gates of the shared helper modules, the imports of every handler and the paired cfg(feature)/cfg(not(feature)) sites are extracted from the source and TLC '
             'checks, for every non-empty subset, that every module an enabled handler needs is compiled in (a violation is a prediction; the real build decides). The crate is '
             'then really built with a sample of subsets in the quick tier and all 4095 in the thorough tier (no errors, no warnings; the empty set must fail with the explicit '
             'message), and inputs naming only enabled traits must expand exactly as in the full build (or be refused, if the full build refuses them) while disabled traits are refused as unsupported wherever they are named (type, variant, field; next to every enabled trait).',
        design_ref='DESIGN.md section 6 (C18)', note=TB_X),
    'C19': dict(
        technique='TLC-enumerated matrix (MC_C19: identifier pool, name-derivation templates and fallback names recorded from real expansions x namespace position x shape x trait set; capture candidates computed by TLC); every item compiled with the real '
                  'compiler inside a prelude-shadowing module and in a #![no_std] crate; compile records validated by TLC against TraceK.tla; run-time corpora under hostile field names validated against TraceR.tla',
        text='The specification contributes the quantifier (every identifier the expansions use internally at every position a user identifier can take) and the expectation '
             '(accepted, compiles cleanly; behaviour unchanged: the ordering / equality / hash / clone corpora rendered with hostile field-name pools must still be explained by the name-independent specification); it contains no model of Rust name resolution. Known findings (const parameters and bare method names that coincide with internal '
             'bindings or prelude names) are listed in known_findings.json; any other failure is a violation.',
        design_ref='DESIGN.md section 6 (C19), section 10', note=TB_R),
}

NOT_YET = 'check not built yet (work in progress, see DESIGN.md section 11)'


def main():
    props = [json.loads(l) for l in open(os.path.join(ROOT, 'properties.jsonl'))]
    hook = subprocess.check_output(['git', '-C', '/repo', 'log', '--format=%h', '--grep=^verif hook']).decode().split()
    checks = []
    na = []
    for p in props:
        pid = p['id']
        if pid in CHECKS:
            c = CHECKS[pid]
            checks.append({
                'property_id': pid,
                'quick_cmd': './check run %s --tier quick' % pid,
                'thorough_cmd': './check run %s --tier thorough' % pid,
                'evidence_file': '/verif/evidence/%s.json' % pid,
                'replay_cmd_template': './check replay {path}',
                'engine': 'tlc',
                'level_claimed': {'category': 'model_checking', 'text': c['text'], 'design_ref': c['design_ref']},
                'level_note': c['note'],
                'technique': c['technique'],
            })
        else:
            na.append({'property_id': pid, 'reason': NA.get(pid, NOT_YET)})
    man = {
        'version': 1,
        'setup_cmd': './check setup',
        'hooks': {
            'guard': 'magiclen_educe_verif',
            'enable': 'rustflags --cfg magiclen_educe_verif in /verif/harness/inproc/.cargo/config.toml; that crate\'s [lib] path is /repo/src/lib.rs, '
                      'built as an rlib exposing educe_verif_expand (channel X). Channel R/K crates use /repo as the real proc macro, guard off.',
            'baseline_off_cmd': 'cd /repo && cargo test --workspace --no-fail-fast --offline',
            'source_commits': hook,
            'add_only': True,
        },
        'engines': [
            {'name': 'tlc', 'path': '/verif/spec', 'serves_properties': sorted(CHECKS),
             'kind_free_text': 'explicit TLA+ specification (EduceSyntax/Build/Run/... + MC_* instances + Trace* trace specifications) checked with TLC; '
                               'conformance by replaying TLC-enumerated configurations into the real macro and validating recorded traces with TLC'},
        ],
        'checks': checks,
        'notes': 'See DESIGN.md. known_findings.json lists fixed defects (12 fix: commits in /repo) and open findings.',
        'not_applicable': na,
    }
    with open(os.path.join(ROOT, 'MANIFEST.json'), 'w') as f:
        json.dump(man, f, indent=1)
    print('MANIFEST: %d checks, %d not_applicable' % (len(checks), len(na)))


NA = {}

if __name__ == '__main__':
    main()
