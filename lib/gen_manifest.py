#!/usr/bin/env python3
"""Regenerates MANIFEST.json from the table below (single source of truth for the interface)."""
import json
import os
import subprocess

ROOT = os.path.dirname(os.path.dirname(os.path.abspath(__file__)))

TB_R = ('TLC 1.8 + CommunityModules (Json, IOUtils); the renderer lib/render.py from abstract configuration to Rust source; '
        'the probe crate harness/rt/probes (logging field types, custom methods, recording hasher/formatter); rustc 1.95 as the '
        'arbiter of what the generated code does. Bounded: shapes, value domain and attribute alphabet as stated in the evidence file.')
TB_X = ('TLC 1.8 + CommunityModules; the in-process expansion harness harness/inproc (the crate itself compiled under '
        '--cfg magiclen_educe_verif, proc_macro2 in fallback mode; candidates found there are confirmed through the real compiler '
        'before they are reported); the renderer from abstract input to tokens.')

CHECKS = {
    'C02': dict(
        technique='TLA+ spec (EduceRun.PropEq/ImplEqStep, MC_C02) model-checked with TLC; TLC-enumerated corpus compiled with the real derive; '
                  'probe call traces validated by TLC against TraceR.tla',
        text='TLC checks on the bounded model that the emitted comparison chain equals the declarative field-wise equality, that ignored fields are '
             'irrelevant and that the laws hold; every configuration TLC reaches becomes a real #[derive(Educe)] type whose == / != are executed on all '
             'ordered value pairs, and every recorded call (operands, probe calls, result) must be explained by PropEq in a TLC trace-validation run.',
        design_ref='DESIGN.md section 6 (C02), sections 3-5', note=TB_R),
    'C03': dict(
        technique='TLA+ spec (EduceRun.CmpDecl/ImplCmpStep/PropCmp, MC_C03) model-checked with TLC; TLC-enumerated corpus compiled with the real derive; '
                  'probe call traces validated by TLC against TraceR.tla',
        text='TLC checks that the emitted rank-ordered chain equals the declarative lexicographic order (None propagation, ignored fields irrelevant, total-order laws, '
             'partial_cmp = Some(cmp) by construction of OrdFn); every reachable configuration (ranks in every spelling, the four ways to educe ordering) is compiled and '
             'cmp/partial_cmp run on all ordered pairs incl. an incomparable value; each recorded call must be justified along the rank order by PropCmp.',
        design_ref='DESIGN.md section 6 (C03)', note=TB_R),
    'C04': dict(
        technique='TLA+ spec (EduceRun.Disc/CmpDecl, MC_C04) model-checked with TLC; TLC-enumerated enum corpus (discriminants x repr x payload types) compiled with the '
                  'real derive; results under three neighbour-byte placements validated by TLC (TraceR.PropCmpResults)',
        text='The specification orders variants by Disc (explicit literal or previous+1) and contains no layout; TLC checks the emitted algorithm against it. The harness '
             'supplies the layout matrix: payloads with niches/zero size, #[repr] variants, each comparison repeated with the operands written into cells pre-filled with '
             'different byte patterns; every observed result must equal the declarative one.',
        design_ref='DESIGN.md section 6 (C04)', note=TB_R + ' Memory layout itself is outside TLA+; see DESIGN.md section 10.'),
    'C05': dict(
        technique='TLA+ spec (EduceRun.ImplHashStep/PropHashAll, MC_C05) model-checked with TLC; corpus compiled with the real derive; recording-hasher feeds validated by TLC',
        text='TLC checks that the emitted feed (variant prefix + field feeds in declaration order) is a function of, and injective on, (variant, non-ignored fields) and that '
             'a == b implies equal feeds; for every reachable configuration every value is hashed into a recording Hasher and the whole observation set is judged over all '
             'pairs of values by PropHashAll (the prefix is not assumed, only functional/injective behaviour).',
        design_ref='DESIGN.md section 6 (C05)', note=TB_R),
}

NOT_YET = 'check not built yet (work in progress, see DESIGN.md section 11)'


def main():
    props = [json.loads(l) for l in open(os.path.join(ROOT, 'properties.jsonl'))]
    hook = subprocess.check_output(['git', '-C', '/repo', 'log', '--format=%h', '--grep=^verif hook']).decode().split()
    checks = []
    na = []
    for p in props:
        pid = p['id']
        if pid in CHECKS:
            c = CHECKS[pid]
            checks.append({
                'property_id': pid,
                'quick_cmd': './check run %s --tier quick' % pid,
                'thorough_cmd': './check run %s --tier thorough' % pid,
                'evidence_file': '/verif/evidence/%s.json' % pid,
                'replay_cmd_template': './check replay {path}',
                'engine': 'tlc',
                'level_claimed': {'category': 'model_checking', 'text': c['text'], 'design_ref': c['design_ref']},
                'level_note': c['note'],
                'technique': c['technique'],
            })
        else:
            na.append({'property_id': pid, 'reason': NA.get(pid, NOT_YET)})
    man = {
        'version': 1,
        'setup_cmd': './check setup',
        'hooks': {
            'guard': 'magiclen_educe_verif',
            'enable': 'rustflags --cfg magiclen_educe_verif in /verif/harness/inproc/.cargo/config.toml; that crate\'s [lib] path is /repo/src/lib.rs, '
                      'built as an rlib exposing educe_verif_expand (channel X). Channel R/K crates use /repo as the real proc macro, guard off.',
            'baseline_off_cmd': 'cd /repo && cargo test --workspace --no-fail-fast --offline',
            'source_commits': hook,
            'add_only': True,
        },
        'engines': [
            {'name': 'tlc', 'path': '/verif/spec', 'serves_properties': sorted(CHECKS),
             'kind_free_text': 'explicit TLA+ specification (EduceSyntax/Build/Run/... + MC_* instances + Trace* trace specifications) checked with TLC; '
                               'conformance by replaying TLC-enumerated configurations into the real macro and validating recorded traces with TLC'},
        ],
        'checks': checks,
        'notes': 'See DESIGN.md. known_findings.json lists fixed defects (11 fix: commits in /repo) and open findings.',
        'not_applicable': na,
    }
    with open(os.path.join(ROOT, 'MANIFEST.json'), 'w') as f:
        json.dump(man, f, indent=1)
    print('MANIFEST: %d checks, %d not_applicable' % (len(checks), len(na)))


NA = {}

if __name__ == '__main__':
    main()
