"""Generate, build and run a `cases` crate: real #[derive(Educe)] types rendered from a corpus."""
import json
import os
import shutil
import subprocess
import time

ROOT = os.path.dirname(os.path.dirname(os.path.abspath(__file__)))
RT = os.path.join(ROOT, 'harness', 'rt')
REPO = '/repo'


class BuildError(Exception):
    def __init__(self, msg, diagnostics=None, text=''):
        super().__init__(msg)
        self.diagnostics = diagnostics or []
        self.text = text


def ensure_lock(dirpath):
    lock = os.path.join(dirpath, 'Cargo.lock')
    if not os.path.exists(lock):
        shutil.copy(os.path.join(REPO, 'Cargo.lock'), lock)


def crate_dir(name):
    return os.path.join(RT, 'cases', name)


def write_crate(name, main_rs, extra_files=None, bins=None):
    """cases/<name>/ with its own workspace root (target dir shared through rt/.cargo/config.toml).

    bins: {bin name: source} — a sharded corpus, one binary per shard (rustc's memory grows with the crate, and cargo
    builds the binaries of one package in parallel)."""
    d = crate_dir(name)
    os.makedirs(os.path.join(d, 'src'), exist_ok=True)
    cargo = '''[package]
name = "cases_%s"
version = "0.0.0"
edition = "2021"
publish = false
autobins = false

[workspace]

[dependencies]
educe = { path = "/repo" }
probes = { path = "../../probes" }

[profile.dev]
opt-level = 0
debug = false
incremental = false
codegen-units = 16
''' % name.lower()
    bindir = os.path.join(d, 'src', 'bin')
    if bins:
        os.makedirs(bindir, exist_ok=True)
        for b in sorted(bins):
            cargo += '\n[[bin]]\nname = "%s"\npath = "src/bin/%s.rs"\n' % (b, b)
            _write_if_changed(os.path.join(bindir, b + '.rs'), bins[b])
        for f in os.listdir(bindir):
            if f.endswith('.rs') and f[:-3] not in bins:
                os.remove(os.path.join(bindir, f))
    else:
        cargo += '\n[[bin]]\nname = "cases_%s"\npath = "src/main.rs"\n' % name.lower()
        if os.path.isdir(bindir):
            shutil.rmtree(bindir)
    _write_if_changed(os.path.join(d, 'Cargo.toml'), cargo)
    os.makedirs(os.path.join(d, '.cargo'), exist_ok=True)
    _write_if_changed(os.path.join(d, '.cargo', 'config.toml'), '[net]\noffline = true\n[build]\ntarget-dir = "../../target"\n')
    if not bins:
        _write_if_changed(os.path.join(d, 'src', 'main.rs'), main_rs)
    for rel, content in (extra_files or {}).items():
        p = os.path.join(d, rel)
        os.makedirs(os.path.dirname(p), exist_ok=True)
        _write_if_changed(p, content)
    ensure_lock(d)
    return d


def _write_if_changed(path, content):
    try:
        if open(path).read() == content:
            return
    except OSError:
        pass
    with open(path, 'w') as f:
        f.write(content)


JOBS = int(os.environ.get('VERIF_JOBS', '8'))
SHARD = int(os.environ.get('VERIF_SHARD', '1500'))
LAST_EXES = {}


def cargo_build(d, timeout=3600, bin_name=None):
    """Build; returns (ok, diagnostics[list of rustc json messages], exe, wall, stderr). Warnings are diagnostics too.
    The executables of a sharded crate are left in LAST_EXES (bin name -> path)."""
    cmd = ['cargo', 'build', '--offline', '--message-format=json', '-q', '-j', str(JOBS)]
    LAST_EXES.clear()
    t0 = time.time()
    env = dict(os.environ)
    env['CARGO_NET_OFFLINE'] = 'true'
    p = subprocess.run(cmd, cwd=d, stdout=subprocess.PIPE, stderr=subprocess.PIPE, text=True, timeout=timeout, env=env)
    wall = time.time() - t0
    diags = []
    exe = None
    for line in p.stdout.split('\n'):
        if not line.startswith('{'):
            continue
        try:
            m = json.loads(line)
        except ValueError:
            continue
        if m.get('reason') == 'compiler-message':
            diags.append(m)
        elif m.get('reason') == 'compiler-artifact' and m.get('executable'):
            exe = m['executable']
            LAST_EXES[m.get('target', {}).get('name')] = exe
    return p.returncode == 0, diags, exe, wall, p.stderr


def run_exe(exe, out_path, env=None, timeout=1800, append=False):
    e = dict(os.environ)
    if env:
        e.update(env)
    t0 = time.time()
    with open(out_path, 'a' if append else 'w') as f:
        p = subprocess.run([exe], stdout=f, stderr=subprocess.PIPE, text=True, env=e, timeout=timeout)
    return p.returncode, p.stderr, time.time() - t0
