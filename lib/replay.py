"""./check replay <file>: re-run one recorded violation against the current /repo."""
import json
import os
import sys


def replay(path):
    import driver
    import props
    import xchan
    d = json.load(open(path))
    prop = d.get('property')
    key = d.get('key', {})
    print('replay of %s: %s' % (prop, d.get('what', '')))
    if isinstance(key.get('cfg'), dict) and 'variants' in key['cfg'] and prop in props.REGISTRY:
        # run-time / bounds properties: re-run the whole pipeline on this single configuration
        ctx = driver.Ctx(prop, 'quick', int(os.environ.get('VERIF_SEED', '1')))
        ctx.workdir = os.path.join(driver.WORK, 'replay_%s' % prop)
        os.makedirs(ctx.workdir, exist_ok=True)
        ctx.only_cfg = key['cfg']
        if prop == 'C19' and key.get('stage'):
            ctx.only_stage, ctx.only_names = key['stage'], key.get('names')
        try:
            props.REGISTRY[prop](ctx)
        except Exception as e:  # noqa
            print('TOOL-ERROR during replay: %s' % e)
            return 2
        return 1 if ctx.violations else 0
    text = d.get('input') or d.get('source')
    if isinstance(text, str):
        exe = xchan.build(None)
        t = text.replace('#[derive(Educe)] ', '')
        for r in xchan.expand1(exe, [{'id': 'replay', 'text': t}]):
            print('input   : %s' % t)
            print('outcome : %s' % r['outcome'])
            print('err     : %s' % r.get('err'))
            print('out     : %s' % (r.get('out') or '')[:2000])
        print('recorded: %s' % json.dumps({k: v for k, v in d.items() if k not in ('key',)})[:3000])
        return 1
    print(json.dumps(d, indent=1)[:6000])
    return 1
