"""Render abstract configurations (CORPUS records emitted by TLC) to real Rust items that use #[derive(Educe)].

The renderer contains no oracle. It chooses among equivalent attribute spellings deterministically from the
configuration index, so that the run-time corpora also exercise the spelling dimension (C14 proves the
spellings equivalent at expansion level).
"""
import hashlib


def pick(options, *key):
    h = hashlib.sha256(repr(key).encode()).digest()
    return options[h[0] % len(options)]


def ignore_spelling(trait, key):
    return pick(['%s(ignore)' % trait, '%s(ignore = true)' % trait, '%s(ignore(true))' % trait, '%s = false' % trait], 'ign', key)


def method_spelling(path, key):
    return pick(['method(%s)' % path, 'method = "%s"' % path, 'method = %s' % path, 'method("%s")' % path], 'meth', key)


def rank_spelling(n, key):
    if n < 0:
        return pick(['rank = %d' % n, 'rank = "%d"' % n, 'rank(%d)' % n, 'rank("%d")' % n], 'rank', key)
    return pick(['rank = %d' % n, 'rank = "%d"' % n, 'rank(%d)' % n, 'rank("%d")' % n], 'rank', key)


NO_RANK = -999
NO_DISC = -999

NAME_POOLS = [
    None,                                                   # f1, f2, ...
    ['r#type', 'r#match', 'r#fn', 'r#loop'],                # raw identifiers
    ['state', 'other', 'f', 'source', 'builder'],           # names the templates use themselves
    ['_0', '_f', '__f', '_s_x', 'x_'],                      # underscore-heavy names
]


class TypeRender:
    """Rust source for one configuration."""

    def __init__(self, idx, cfg, prop):
        self.idx = idx
        self.cfg = cfg
        self.prop = prop
        self.name = 'T%d' % idx
        self.opts = cfg['opts']
        self.traits = list(self.opts['traits'])
        # naming dimension: mostly plain names, sometimes raw / template-internal / underscore names
        self.pool = NAME_POOLS[pick([0, 0, 0, 1, 2, 3], idx, 'names')]

    def fname(self, v, i):
        if self.pool is None or i > len(self.pool):
            return 'f%d' % i
        return self.pool[i - 1]

    # ------------------------------------------------------------ attributes
    def type_attr(self):
        parts = []
        for t in self.traits:
            parts.append(self.type_trait_meta(t))
        key = (self.idx, 'tattr')
        if len(parts) > 1 and pick([0, 1, 2], key) == 0:
            # several #[educe] attributes instead of one list
            return ' '.join('#[educe(%s)]' % p for p in parts)
        return '#[educe(%s)]' % ', '.join(parts)

    def type_trait_meta(self, t):
        o = self.opts
        if t == 'Debug':
            ps = []
            dn = o.get('dname', 'default')
            if dn == 'off':
                ps.append(pick(['name = false', 'name(false)', 'rename = false', 'name = ""'], self.idx, 'dn'))
            elif dn == 'on':
                ps.append(pick(['name = true', 'name(true)'], self.idx, 'dn'))
            elif dn == 'custom':
                ps.append(pick(['name = Renamed', 'name = "Renamed"', 'name(Renamed)', 'rename = Renamed', 'name("Renamed")'], self.idx, 'dn'))
            dnf = o.get('dnf', 'default')
            if dnf in ('true', 'false'):
                ps.append(pick(['named_field = %s' % dnf, 'named_field(%s)' % dnf], self.idx, 'dnf'))
            if self.cfg['kind'] == 'union':
                ps.insert(0, 'unsafe')
            if ps == ['name = Renamed'] and pick([0, 1], self.idx, 'dsh') == 0 and self.cfg['kind'] != 'union':
                return 'Debug = Renamed'
            return 'Debug(%s)' % ', '.join(ps) if ps else 'Debug'
        if t in ('PartialEq', 'Hash') and self.cfg['kind'] == 'union':
            return '%s(unsafe)' % t
        if t == 'Default':
            ps = []
            if o.get('newfn'):
                ps.append(pick(['new', 'new = true', 'new(true)'], self.idx, 'new'))
            if o.get('dexpr'):
                ps.append(pick(['expression = %s', 'expr = %s', 'expression(%s)', 'expr(%s)'], self.idx, 'dx') % self.type_default_expr())
            return 'Default(%s)' % ', '.join(ps) if ps else 'Default'
        if t == 'Into':
            tn = {'A': 'TA', 'B': 'TB'}
            return ', '.join('Into(%s)' % pick([tn[x], 'probes::%s' % tn[x]], self.idx, 'itn', x) for x in o['targets'])
        return t

    def field_attr(self, v, i, f):
        """attribute string for field i (1-based) of variant v"""
        metas = []
        o = self.opts
        key = (self.idx, v, i)
        if 'PartialEq' in self.traits and f['eq'] != 'own':
            via = o.get('eqvia', 'PartialEq')
            if f['eq'] == 'ignore':
                metas.append(ignore_spelling(via, key))
            else:
                metas.append('%s(%s)' % (via, method_spelling('probes::m_eq', key)))
        ordered = [t for t in ('Ord', 'PartialOrd') if t in self.traits]
        if ordered:
            via = o.get('ordvia', ordered[0])
            if via not in self.traits:
                via = ordered[0]
            ps = []
            if f['ord'] == 'ignore':
                ps.append(pick(['ignore', 'ignore = true', 'ignore(true)'], 'oi', key))
            elif f['ord'] == 'method':
                m = 'probes::m_cmp' if 'Ord' in self.traits else 'probes::m_pcmp'
                ps.append(method_spelling(m, key))
            if f['rank'] != NO_RANK:
                ps.append(rank_spelling(int(f['rank']), key))
            if ps:
                if ps == ['ignore'] and pick([0, 1], 'osh', key) == 0:
                    metas.append('%s = false' % via)
                else:
                    if pick([0, 1], 'oord', key) == 0:
                        ps.reverse()
                    metas.append('%s(%s)' % (via, ', '.join(ps)))
        if 'Hash' in self.traits and f['hash'] != 'own':
            if f['hash'] == 'ignore':
                metas.append(ignore_spelling('Hash', key))
            else:
                metas.append('Hash(%s)' % method_spelling('probes::m_hash', key))
        if 'Clone' in self.traits and f['clone'] == 'method':
            metas.append('Clone(%s)' % method_spelling('probes::m_clone', key))
        if 'Into' in self.traits:
            for m in f.get('into', []):
                tn = {'A': 'TA', 'B': 'TB'}[m['t']]
                # the target must be spelled as on the type (targets are matched by their token string)
                tn = pick([tn, 'probes::%s' % tn], self.idx, 'itn', m['t'])
                if m['m']:
                    metas.append('Into(%s, %s)' % (tn, method_spelling('probes::m_into', key + (m['t'],))))
                else:
                    metas.append('Into(%s)' % tn)
        if 'Deref' in self.traits and f.get('deref'):
            metas.append('Deref')
        if 'DerefMut' in self.traits and f.get('dmut'):
            metas.append('DerefMut')
        metas += self.extra_field_metas(v, i, f)
        # companion noise: when Debug is educed only as a bystander, give it field attributes of its own,
        # before or after the studied trait's attributes
        noise = []
        if 'Debug' in self.traits and self.prop != 'C06' and pick([0, 1, 2], 'noise', key) != 0:
            noise = [pick(['Debug(ignore)', 'Debug = false', 'Debug(method(probes::m_any))'], 'noisek', key)]
        if noise:
            if pick([0, 1], 'noisepos', key) == 0:
                metas = metas + noise
            else:
                metas = noise + metas
        if not metas:
            return ''
        if len(metas) > 1 and pick([0, 1, 2], 'fsplit', key) != 0:
            return ' '.join('#[educe(%s)]' % m for m in metas) + ' '
        return '#[educe(%s)] ' % ', '.join(metas)

    def extra_field_metas(self, v, i, f):
        metas = []
        key = (self.idx, v, i)
        var = self.cfg['variants'][v - 1]
        if 'Debug' in self.traits:
            ps = []
            if f.get('dbg', 'own') == 'ignore':
                ps.append(pick(['ignore', 'ignore = true', 'ignore(true)'], 'di', key))
            elif f.get('dbg', 'own') == 'method':
                ps.append(method_spelling('probes::m_fmt', key))
            if f.get('key', ''):
                k = 'k%d' % i
                ps.append(pick(['name = %s', 'name = "%s"', 'name(%s)', 'rename = %s', 'rename("%s")'], 'dk', key) % k)
            if ps:
                if ps == ['ignore'] and pick([0, 1], 'dsh', key) == 0:
                    metas.append('Debug = false')
                elif len(ps) == 1 and f.get('key', '') and f.get('dbg', 'own') == 'own' and pick([0, 1, 2], 'dsh2', key) == 0:
                    metas.append(pick(['Debug = k%d', 'Debug = "k%d"'], 'dsh3', key) % i)
                else:
                    if pick([0, 1], 'dord', key) == 0:
                        ps.reverse()
                    metas.append('Debug(%s)' % ', '.join(ps))
        return metas

    def variant_attr(self, v, var):
        metas = []
        key = (self.idx, v)
        if 'Debug' in self.traits:
            ps = []
            dn = var.get('dname', 'default')
            if dn == 'off':
                ps.append(pick(['name = false', 'name(false)', 'rename = false', 'name = ""'], 'vdn', key))
            elif dn == 'custom':
                n = 'RenamedV%d' % v
                ps.append(pick(['name = %s', 'name = "%s"', 'name(%s)', 'rename = %s', 'name("%s")'], 'vdn', key) % n)
            dnf = var.get('dnf', 'default')
            if dnf in ('true', 'false'):
                ps.append(pick(['named_field = %s' % dnf, 'named_field(%s)' % dnf], 'vdnf', key))
            if ps:
                if len(ps) == 1 and dn == 'custom' and pick([0, 1, 2], 'vsh', key) == 0:
                    metas.append('Debug = RenamedV%d' % v)
                else:
                    if pick([0, 1], 'vord', key) == 0:
                        ps.reverse()
                    metas.append('Debug(%s)' % ', '.join(ps))
        if var.get('dflt') and 'Default' in self.traits:
            metas.append('Default')
        if not metas:
            return ''
        return '#[educe(%s)] ' % ', '.join(metas)

    def extra_items(self):
        """items rendered after the type (on the same line), e.g. a hand-written PartialOrd when only Ord is educed"""
        if 'Ord' in self.traits and 'PartialOrd' not in self.traits:
            return ('impl ::core::cmp::PartialOrd for %s { fn partial_cmp(&self, o: &Self) -> Option<::core::cmp::Ordering> '
                    '{ Some(::core::cmp::Ord::cmp(self, o)) } }' % self.name)
        if 'Copy' in self.traits:
            return 'const _: fn() = || { fn is_copy<T: ::core::marker::Copy>() {} is_copy::<%s>(); };' % self.name
        return ''

    FIELD_TYPES = {'A': 'TA', 'B': 'TB', 'P': 'P', 'ref': "&'static P", 'bool': 'bool', 'u64': 'u64', 'unit': '()', 'char': 'char', 'str': "&'static str",
                   'nz': '::core::num::NonZeroU8', 'opt': 'Option<u8>', 'nested': 'probes::Inner'}
    with_finger = True

    def field_type(self, v, i, f):
        ty = f.get('ty', 'P')
        if ty in ('A', 'B'):
            # spelled exactly like the Into target on the type: educe matches a field's declared type
            # against the target by token string
            tn = {'A': 'TA', 'B': 'TB'}[ty]
            return pick([tn, 'probes::%s' % tn], self.idx, 'itn', ty)
        return self.FIELD_TYPES[ty]

    # ------------------------------------------------------------ item
    def fields_src(self, v, var, with_vis=False):
        fs = var['fields']
        if var['style'] == 'unit':
            return ''
        parts = []
        for i, f in enumerate(fs, 1):
            a = self.field_attr(v, i, f)
            ty = self.field_type(v, i, f)
            if var['style'] == 'named':
                parts.append('%s%s: %s' % (a, self.fname(v, i), ty))
            else:
                parts.append('%s%s' % (a, ty))
        if var['style'] == 'named':
            return ' { %s }' % ', '.join(parts)
        return '(%s)' % ', '.join(parts)

    def repr_attr(self):
        r = self.opts.get('repr', 'none')
        return '' if r == 'none' else '#[repr(%s)] ' % r

    def item(self):
        c = self.cfg
        head = '#[derive(Educe)] %s %s' % (self.type_attr(), self.repr_attr())
        if c['kind'] == 'struct':
            var = c['variants'][0]
            body = self.fields_src(1, var)
            semi = ';' if var['style'] in ('unit', 'tuple') else ''
            return '%sstruct %s%s%s' % (head, self.name, body, semi)
        if c['kind'] == 'union':
            var = c['variants'][0]
            return '%sunion %s%s' % (head, self.name, self.fields_src(1, var))
        vs = []
        for v, var in enumerate(c['variants'], 1):
            d = '' if var.get('disc', NO_DISC) == NO_DISC else ' = %s' % var['disc']
            vs.append('%sV%d%s%s' % (self.variant_attr(v, var), v, self.fields_src(v, var), d))
        return '%senum %s { %s }' % (head, self.name, ', '.join(vs))

    def addrs_impl(self):
        """impl Addrs: address of every field's storage (referent for reference fields), per variant"""
        c = self.cfg
        arms = []
        for v, var in enumerate(c['variants'], 1):
            path = self.name if c['kind'] != 'enum' else '%s::V%d' % (self.name, v)
            n = len(var['fields'])
            names = ['g%d' % i for i in range(1, n + 1)]
            if var['style'] == 'named':
                pat = '%s { %s }' % (path, ', '.join('%s: %s' % (self.fname(v, i), g) for i, g in enumerate(names, 1)))
            elif var['style'] == 'tuple':
                pat = '%s(%s)' % (path, ', '.join(names))
            else:
                pat = path
            arms.append('%s => vec![%s],' % (pat, ', '.join('addr_of_p(%s)' % g for g in names)))
        return 'impl Addrs for %s { fn addrs(&self) -> Vec<usize> { match self { %s } } }' % (self.name, ' '.join(arms))

    # ------------------------------------------------------------ Case impl
    def ctor(self, v, var, side='s', vals='x'):
        c = self.cfg
        path = self.name if c['kind'] != 'enum' else '%s::V%d' % (self.name, v)
        n = len(var['fields'])
        if var['style'] == 'unit':
            return path
        args = [self.field_ctor(v, i, var['fields'][i - 1], side, '%s[%d]' % (vals, i - 1)) for i in range(1, n + 1)]
        if var['style'] == 'named':
            return '%s { %s }' % (path, ', '.join('%s: %s' % (self.fname(v, i), a) for i, a in enumerate(args, 1)))
        return '%s(%s)' % (path, ', '.join(args))

    def field_ctor(self, v, i, f, side, val):
        ty = f.get('ty', 'P')
        if ty == 'P':
            return 'P::new(%s, %d, %s)' % (side, i, val)
        if ty == 'unit':
            return '()'
        if ty in ('A', 'B'):
            return 'T%s::new(%s, %d, %s)' % (ty, side, i, val)
        if ty == 'ref':
            return '&*Box::leak(Box::new(P::new(%s, %d, %s)))' % (side, i, val)
        return 'probes::mk_%s(%s)' % (ty, val)

    def finger_arm(self, v, var):
        c = self.cfg
        path = self.name if c['kind'] != 'enum' else '%s::V%d' % (self.name, v)
        n = len(var['fields'])
        if var['style'] == 'unit':
            return '%s => format!("[%d,[]]")' % (path, v)
        names = ['g%d' % i for i in range(1, n + 1)]
        if var['style'] == 'named':
            pat = '%s { %s }' % (path, ', '.join('%s: %s' % (self.fname(v, i), g) for i, g in enumerate(names, 1)))
        else:
            pat = '%s(%s)' % (path, ', '.join(names))
        if n == 0:
            return '%s => format!("[%d,[]]")' % (pat, v)
        fmt = ','.join('{}' for _ in names)
        return '%s => format!("[%d,[%s]]", %s)' % (pat, v, fmt, ', '.join('%s.finger()' % g for g in names))

    def case_impl(self):
        c = self.cfg
        nv = len(c['variants'])
        nf_arms = ' '.join('%d => %d,' % (v, len(var['fields'])) for v, var in enumerate(c['variants'], 1))
        mk_arms = ' '.join('%d => %s,' % (v, self.ctor(v, var)) for v, var in enumerate(c['variants'], 1))
        if c['kind'] == 'union' or not self.with_finger:
            finger = ''
        elif nv == 0:
            finger = 'fn finger(&self) -> String { match *self {} }'
        else:
            fa = ' '.join(self.finger_arm(v, var) + ',' for v, var in enumerate(c['variants'], 1))
            finger = 'fn finger(&self) -> String { match self { %s } }' % fa
        return ('impl Case for %s { const ID: usize = %d; fn nvariants() -> usize { %d } '
                'fn nfields(v: usize) -> usize { match v { %s _ => unreachable!() } } '
                '#[allow(unused_variables)] fn make(s: u8, v: usize, x: &[i8]) -> Self { match v { %s _ => unreachable!() } } %s }'
                % (self.name, self.idx, nv, nf_arms, mk_arms, finger))
