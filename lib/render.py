"""Render abstract configurations (CORPUS records emitted by TLC) to real Rust items that use #[derive(Educe)].

The renderer contains no oracle. Every choice between equivalent spellings goes through `sp()`, whose
alternatives come from the TLA+ table spec/EduceSpell.tla (printed by TLC, cached in work/spell.json).
By default the spelling is picked deterministically from the configuration index, so the run-time corpora
also exercise the spelling dimension; C14 overrides one *site* at a time to build spelling groups.
"""
import hashlib
import json
import os

ROOT = os.path.dirname(os.path.dirname(os.path.abspath(__file__)))
NO_RANK = -999
NO_DISC = -999

_SPELL = None


def load_spell():
    global _SPELL
    if _SPELL is not None:
        return _SPELL
    src = os.path.join(ROOT, 'spec', 'EduceSpell.tla')
    cache = os.path.join(ROOT, 'work', 'spell.json')
    try:
        if os.path.getmtime(cache) >= os.path.getmtime(src):
            _SPELL = json.load(open(cache))
            return _SPELL
    except OSError:
        pass
    import tlc
    os.makedirs(os.path.join(ROOT, 'work', 'spell'), exist_ok=True)
    res = tlc.run_mc('EduceSpell', 'EduceSpell.cfg', os.path.join(ROOT, 'work', 'spell'), workers=1, timeout=120, tags=('SPELL',), heap='1g')
    if not res['tagged']['SPELL']:
        raise tlc.ToolError('could not obtain the spelling table from EduceSpell.tla:\n' + res['text'][-2000:])
    _SPELL = res['tagged']['SPELL'][0]
    tmp = cache + '.%d' % os.getpid()
    with open(tmp, 'w') as f:
        json.dump(_SPELL, f)
    os.replace(tmp, cache)
    return _SPELL


def rank_value(r):
    """the model's MinRank (-100000) stands for isize::MIN: ranks near it are rendered near isize::MIN"""
    r = int(r)
    return -(2 ** 63) + (r + 100000) if r <= -99000 else r


def hpick(n, *key):
    h = hashlib.sha256(repr(key).encode()).digest()
    return h[0] % n


def pick(options, *key):
    return options[hpick(len(options), *key)]


NAME_POOLS = [
    None,                                                   # f1, f2, ...
    ['r#type', 'r#match', 'r#fn', 'r#loop'],                # raw identifiers
    ['state', 'other', 'f', 'source', 'builder'],           # names the templates use themselves
    ['_0', '_f', '__f', '_s_x', 'x_'],                      # underscore-heavy names
    ['x', '_x', '__x', '_s_x', '_o_x'],                     # names a template could derive from a sibling field's name
]


class TypeRender:
    """Rust source for one configuration."""

    BYSTANDER_PROPS = ('C02', 'C03', 'C05', 'C06', 'C07', 'C09', 'C10')

    FIELD_TYPES = {'A': 'TA', 'B': 'TB', 'P': 'P', 'ref': "&'static P", 'refmut': "&'static mut P", 'refref': "&'static &'static P", 'bool': 'bool', 'u64': 'u64', 'unit': '()', 'char': 'char',
                   'str': "&'static str", 'nz': '::core::num::NonZeroU8', 'opt': 'Option<u8>', 'nested': 'probes::Inner'}
    with_finger = True

    def __init__(self, idx, cfg, prop, overrides=None, canonical=False, name=None):
        self.idx = idx
        self.cfg = cfg
        self.prop = prop
        self.name = name or 'T%d' % idx
        self.opts = cfg['opts']
        self.traits = list(self.opts['traits'])
        self.overrides = dict(overrides or {})
        self.canonical = canonical
        self.sites = []           # (site, class, n) visited by the last render
        self.used_overrides = set()
        # naming dimension: mostly plain names, sometimes raw / template-internal / underscore names
        self.pool = None if canonical else NAME_POOLS[pick([0, 0, 0, 1, 2, 3, 4], idx, 'names')]
        # bystander dimension (run-time corpora only): another trait is educed next to the studied ones and given
        # field attributes of its own, stacked before / after / inside the studied trait's attribute; and foreign
        # (non-educe) attributes are sprinkled around the educe ones.  Neither may change the studied impls.
        self.bystander = None
        if not canonical and prop in self.BYSTANDER_PROPS and pick([0, 1], idx, 'bystander') == 1:
            cand = 'Debug' if 'Debug' not in self.traits else ('Hash' if 'Hash' not in self.traits else None)
            if cand and cfg['kind'] != 'union' and len(cfg['variants']) > 0:
                self.bystander = cand
        self.foreign = (not canonical) and prop in self.BYSTANDER_PROPS + ('C08',)

    RAW_NAME_PROPS = ('C14', 'C15', 'C16')

    def nm(self, name):
        """a custom Debug name / key: in the expansion-level corpora half of the configurations write their names as raw
        identifiers (`r#Renamed`); every spelling of one request carries the same name, so the groups must still agree"""
        if self.prop in self.RAW_NAME_PROPS and hpick(2, self.idx, 'rawnames') == 1:
            return 'r#' + name
        return name

    # ------------------------------------------------------------ spelling
    def sp(self, cls, site, T='', P='', V='', S=None):
        opts = load_spell()[cls]
        n = len(opts)
        if site in self.overrides:
            k = self.overrides[site] - 1
            self.used_overrides.add(site)
        elif self.canonical:
            k = 0
        else:
            k = hpick(n, self.idx, site)
        self.sites.append((site, cls, n))
        if S is None:
            S = V
        out = opts[k].replace('$T', T).replace('$P', P)
        if '$X' in out or '$U' in out:
            n_ = int(V)
            sign = '-' if n_ < 0 else ''
            out = out.replace('$X', '%s0x%X' % (sign, abs(n_))).replace('$U', '%s0_%disize' % (sign, abs(n_)))
        return out.replace('$V', str(V)).replace('$S', str(S))

    def order(self, items, site):
        if len(items) < 2:
            return items
        how = self.sp('order', site)
        if how == 'reverse':
            return list(reversed(items))
        if how == 'rotate':
            return items[1:] + items[:1]
        return items

    def attrs(self, metas, site):
        """one #[educe(..)] list or one attribute per meta"""
        metas = [m for m in metas if m]
        if not metas:
            return ''
        if len(metas) > 1 and self.sp('split', site) == 'separate':
            return ' '.join(self.delim(site, k) % ('%s%s' % (m, self.trail(site, k))) for k, m in enumerate(metas)) + ' '
        return self.delim(site, 0) % ('%s%s' % (', '.join(metas), self.trail(site, 0))) + ' '

    def meta(self, T, params, site):
        params = [p for p in params if p]
        if not params:
            return T
        return '%s(%s%s)' % (T, ', '.join(self.order(params, site + '/order')), self.trail(site, 'p'))

    def delim(self, site, k):
        """the delimiter of the attribute's list: `#[educe(..)]`, and now and then `#[educe[..]]` or `#[educe{..}]`"""
        if self.canonical:
            return '#[educe(%s)]'
        return (['#[educe(%s)]'] * 6 + ['#[educe[%s]]', '#[educe{%s}]'])[hpick(8, self.idx, 'delim', site, k)]

    def trail(self, site, k):
        """a trailing comma after the last element of a list (attribute list or parameter list), in a third of the
        non-canonical renderings: never part of the request"""
        if self.canonical:
            return ''
        return ',' if hpick(3, self.idx, 'trail', site, k) == 0 else ''

    def fname(self, v, i):
        # from the second variant on, a third of the configurations rotate the field names (`V1 { f1, f2 }`,
        # `V2 { f2, f1 }`): the same name then sits at different positions in different variants
        if v >= 2 and hpick(3, self.idx, 'permnames') == 0:       # (by configuration index only: every rendering of one configuration agrees)
            n = len(self.cfg['variants'][v - 1]['fields'])
            if n >= 2:
                i = i % n + 1
        if self.pool is None or i > len(self.pool):
            return 'f%d' % i
        return self.pool[i - 1]

    # ------------------------------------------------------------ type-level attributes
    def bound_mode(self, t):
        b = self.opts.get('bounds') or {}
        if t in b:
            return b[t]
        return b.get(t.split(':')[0], 'auto')

    def bound_param(self, t, mode=None, site=None):
        b = mode or self.bound_mode(t)
        site = site or 't/%s/bound' % t
        if b == 'auto':
            return self.sp('bound_auto_p', site) if site in self.overrides else ''
        if b == 'autox':
            # the automatic mode, spelled explicitly
            return self.sp('bound_auto_p', site)
        if b == 'disabled':
            return self.sp('bound_disabled_p', site)
        if b == 'all':
            return self.sp('bound_all_p', site)
        return self.sp('bound_custom_p', site, V=self.custom_bound_text(t))

    def custom_bound_text(self, t):
        return 'T: Copy'

    def type_trait_meta(self, t):
        o = self.opts
        union = self.cfg['kind'] == 'union'
        if t == 'Debug':
            ps = []
            dn = o.get('dname', 'default')
            dnf = o.get('dnf', 'default')
            bp = self.bound_param(t) if not union else ''
            if dn == 'custom' and dnf == 'default' and not bp and not union:
                return self.sp('name', 't/Debug/name', V=self.nm('Renamed'))
            if dn == 'off':
                ps.append(self.sp('name_off_p', 't/Debug/name'))
            elif dn == 'on':
                ps.append(self.sp('name_on_p', 't/Debug/name'))
            elif dn == 'custom':
                ps.append(self.sp('name_p', 't/Debug/name', V=self.nm('Renamed')))
            if dnf in ('true', 'false'):
                ps.append(self.sp('bool_p', 't/Debug/named_field', P='named_field', V=dnf))
            ps.append(bp)
            ps = self.order([p for p in ps if p], 't/Debug/order')
            if union:
                ps.insert(0, 'unsafe')
            return 'Debug(%s)' % ', '.join(ps) if ps else 'Debug'
        if t in ('PartialEq', 'Hash') and union:
            return '%s(unsafe)' % t
        if t == 'Default':
            ps = []
            if o.get('newfn'):
                ps.append(self.sp('new_p', 't/Default/new'))
            if o.get('dexpr'):
                ps.append(self.sp('expr_p', 't/Default/expr', V=self.type_default_expr()))
            ps.append(self.bound_param(t))
            return self.meta('Default', ps, 't/Default')
        if t == 'Into':
            out = []
            for x in o['targets']:
                p = self.bound_param('Into:' + x)
                out.append('Into(%s%s)' % (self.target_name(x), ', ' + p if p else ''))
            return ', '.join(out)
        if t in ('Deref', 'DerefMut'):
            return t
        return self.meta(t, [self.bound_param(t)], 't/' + t)

    def target_name(self, x):
        tn = {'A': 'TA', 'B': 'TB'}[x]
        if self.canonical:
            return tn
        return pick([tn, 'probes::%s' % tn], self.idx, 'itn', x)

    def type_attr(self):
        parts = [self.type_trait_meta(t) for t in self.order(self.traits, 't/order')]
        if self.bystander:
            k = hpick(len(parts) + 1, self.idx, 'bypos')
            parts.insert(k, self.bystander)
        return self.attrs(parts, 't/split')

    def bystander_meta(self, v, i):
        key = (self.idx, v, i)
        if self.bystander == 'Debug':
            return pick([None, 'Debug(ignore)', 'Debug = false', 'Debug(method(probes::m_any))'], 'noisek', key)
        if self.bystander == 'Hash':
            return pick([None, 'Hash(ignore)', 'Hash = false', 'Hash(method(probes::m_anyhash))'], 'noisek', key)
        return None

    def foreign_wrap(self, text, key):
        """sprinkle non-educe attributes around a rendered educe attribute string"""
        if not self.foreign or not text:
            return text
        how = pick(['', '', 'allow-before', 'doc-before', 'allow-after', 'both', 'between'], 'foreign', self.idx, key)
        if how == 'between':
            # a foreign attribute *between* two stacked educe attributes (or before the only one)
            return text.replace(')] #[educe(', ')] #[doc = "m"] #[educe(', 1) if ')] #[educe(' in text else '#[doc = "m"] ' + text
        if how == 'allow-before':
            return '#[allow(dead_code)] ' + text
        if how == 'doc-before':
            return '#[doc = "x"] ' + text
        if how == 'allow-after':
            return text + '#[allow(dead_code)] '
        if how == 'both':
            return '#[doc = "x"] ' + text + '#[allow(dead_code)] '
        return text

    def type_default_expr(self):
        raise NotImplementedError

    # ------------------------------------------------------------ variant-level attributes
    def variant_attr(self, v, var):
        metas = []
        if 'Debug' in self.traits:
            ps = []
            dn = var.get('dname', 'default')
            dnf = var.get('dnf', 'default')
            if dn == 'custom' and dnf == 'default':
                metas.append(self.sp('name', 'v/%d/Debug/name' % v, V=self.nm('RenamedV%d' % v)))
            else:
                if dn == 'off':
                    ps.append(self.sp('name_off_p', 'v/%d/Debug/name' % v))
                elif dn == 'custom':
                    ps.append(self.sp('name_p', 'v/%d/Debug/name' % v, V=self.nm('RenamedV%d' % v)))
                if dnf in ('true', 'false'):
                    ps.append(self.sp('bool_p', 'v/%d/Debug/named_field' % v, P='named_field', V=dnf))
                if ps:
                    metas.append(self.meta('Debug', ps, 'v/%d/Debug' % v))
        if var.get('dflt') and 'Default' in self.traits:
            metas.append('Default')
        text = self.attrs(self.order(metas, 'v/%d/order' % v), 'v/%d/split' % v)
        if self.foreign and self.cfg['kind'] == 'enum':
            # foreign attributes on variants too (with or without an educe attribute next to them)
            how = pick(['', '', 'doc-before', 'allow-after', 'both'], 'foreign-variant', self.idx, v)
            if how == 'doc-before':
                text = '#[doc = "v"] ' + text
            elif how == 'allow-after':
                text = text + '#[allow(dead_code)] '
            elif how == 'both':
                text = '#[allow(dead_code)] ' + text + '#[doc = "v"] '
        return text

    # ------------------------------------------------------------ field-level attributes
    def default_value_text(self, v, i, f):
        kind = f['dflt']
        return {'int': '%d' % (10 + i), 'int8': '%du8' % (10 + i), 'str': '"%d"' % (10 + i), 'bool': 'true', 'char': "'%d'" % i,
                'float': '%d.0' % (10 + i), 'expr': 'probes::pexpr(%d)' % (10 + i)}[kind]

    def method_path(self, t):
        p = {'PartialEq': 'probes::m_eq', 'Ord': 'probes::m_cmp', 'PartialOrd': 'probes::m_pcmp', 'Hash': 'probes::m_hash',
             'Clone': 'probes::m_clone', 'Debug': 'probes::m_fmt', 'Into': 'probes::m_into'}[t]
        # a third of the configurations name the method with explicit (inferred) generic arguments: a path is a path
        # in every spelling
        if hpick(3, self.idx, 'turbofish') == 0:
            p += {'Hash': '::<_, _>', 'Into': '::<_, _>'}.get(t, '::<_>')
        return p

    def field_metas(self, v, i, f):
        metas = []
        o = self.opts
        base = 'f/%d/%d' % (v, i)
        if 'Debug' in self.traits:
            dbg = f.get('dbg', 'own')
            key = f.get('key', '')
            if dbg == 'ignore' and not key:
                metas.append(self.sp('ignore', base + '/Debug/ignore', T='Debug'))
            elif dbg == 'own' and key:
                metas.append(self.sp('key', base + '/Debug/key', V=self.nm('k%d' % i)))
            elif dbg != 'own' or key:
                ps = []
                if dbg == 'ignore':
                    ps.append(self.sp('ignore_p', base + '/Debug/ignore'))
                elif dbg == 'method':
                    ps.append(self.sp('method_p', base + '/Debug/method', V=self.method_path('Debug')))
                if key:
                    ps.append(self.sp('key_p', base + '/Debug/key', V=self.nm('k%d' % i)))
                metas.append(self.meta('Debug', ps, base + '/Debug'))
        if 'Clone' in self.traits and f.get('clone', 'own') == 'method':
            metas.append('Clone(%s)' % self.sp('method_p', base + '/Clone/method', V=self.method_path('Clone')))
        if 'PartialEq' in self.traits and f.get('eq', 'own') != 'own':
            via = o.get('eqvia', 'PartialEq')
            if via not in self.traits:
                via = 'PartialEq'
            if f['eq'] == 'ignore':
                metas.append(self.sp('ignore', base + '/PartialEq/ignore', T=via))
            else:
                metas.append('%s(%s)' % (via, self.sp('method_p', base + '/PartialEq/method', V=self.method_path('PartialEq'))))
        ordered = [t for t in ('Ord', 'PartialOrd') if t in self.traits]
        if ordered:
            via = o.get('ordvia', ordered[0])
            if via not in self.traits:
                via = ordered[0]
            mt = 'Ord' if 'Ord' in self.traits else 'PartialOrd'
            has_rank = f.get('rank', NO_RANK) != NO_RANK
            if f.get('ord', 'own') == 'ignore' and not has_rank:
                metas.append(self.sp('ignore', base + '/Ord/ignore', T=via))
            else:
                ps = []
                if f.get('ord', 'own') == 'ignore':
                    ps.append(self.sp('ignore_p', base + '/Ord/ignore'))
                elif f.get('ord', 'own') == 'method':
                    ps.append(self.sp('method_p', base + '/Ord/method', V=self.method_path(mt)))
                if has_rank:
                    ps.append(self.sp('rank_p', base + '/Ord/rank', V=rank_value(f['rank'])))
                if ps:
                    metas.append(self.meta(via, ps, base + '/Ord'))
        if 'Hash' in self.traits and f.get('hash', 'own') != 'own':
            if f['hash'] == 'ignore':
                metas.append(self.sp('ignore', base + '/Hash/ignore', T='Hash'))
            else:
                metas.append('Hash(%s)' % self.sp('method_p', base + '/Hash/method', V=self.method_path('Hash')))
        if 'Default' in self.traits:
            if f.get('dflt', 'none') != 'none':
                metas.append(self.sp('expr', base + '/Default/expr', V=self.default_value_text(v, i, f)))
            elif f.get('deref') and self.cfg['kind'] == 'union':
                metas.append('Default')
        if 'Into' in self.traits:
            for m in f.get('into', []):
                tn = self.target_name(m['t'])
                if m['m']:
                    metas.append('Into(%s, %s)' % (tn, self.sp('method_p', base + '/Into:%s/method' % m['t'], V=self.method_path('Into'))))
                else:
                    metas.append('Into(%s)' % tn)
        if 'Deref' in self.traits and f.get('deref') and self.cfg['kind'] != 'union':
            metas.append('Deref')
        if 'DerefMut' in self.traits and f.get('dmut'):
            metas.append('DerefMut')
        # "do not ignore", said explicitly: a fifth of the fields that a trait treats the default way say so
        # (`Hash(ignore = false)`, `Hash(ignore(false))`) -- never part of the request
        if not self.canonical and self.cfg['kind'] != 'union' and getattr(self, 'explicit_own', True):
            for t, key in (('Hash', 'hash'), ('Debug', 'dbg'), ('PartialEq', 'eq')):
                if t in self.traits and f.get(key, 'own') == 'own' and not (t == 'Debug' and f.get('key')) \
                        and not any(m.startswith(t + '(') or m.startswith(t + ' ') or m == t for m in metas if m) \
                        and not (t == 'PartialEq' and any(m and m.startswith('Eq') for m in metas)) \
                        and hpick(5, self.idx, 'explicit-own', v, i, t) == 0:
                    metas.append('%s(%s)' % (t, ['ignore = false', 'ignore(false)'][hpick(2, self.idx, 'explicit-own-form', v, i, t)]))
        return metas

    def field_attr(self, v, i, f):
        base = 'f/%d/%d' % (v, i)
        metas = self.field_metas(v, i, f)
        # bystander noise: when Debug is educed only as a companion (see C08), give it field attributes of its
        # own, before or after the studied trait's attributes
        if 'Debug' in self.traits and self.prop in ('C08',) and not self.canonical:
            key = (self.idx, v, i)
            metas = [m for m in metas if not m.startswith('Debug')]
            if pick([0, 1, 2], 'noise', key) != 0:
                noise = pick(['Debug(ignore)', 'Debug = false', 'Debug(method(probes::m_any))'], 'noisek', key)
                metas = metas + [noise] if pick([0, 1], 'noisepos', key) == 0 else [noise] + metas
            return self.foreign_wrap(self.attrs(metas, base + '/split'), base)
        if self.bystander:
            nm = self.bystander_meta(v, i)
            if nm:
                metas = self.order(metas, base + '/order')
                k = hpick(len(metas) + 1, self.idx, 'bymeta', v, i)
                metas.insert(k, nm)
                return self.foreign_wrap(self.attrs(metas, base + '/split'), base)
        return self.foreign_wrap(self.attrs(self.order(metas, base + '/order'), base + '/split'), base)

    def field_type(self, v, i, f):
        ty = f.get('ty', 'P')
        if ty in ('A', 'B'):
            # spelled exactly like the Into target on the type: educe matches a field's declared type
            # against the target by token string
            return self.target_name(ty)
        return self.FIELD_TYPES[ty]

    # ------------------------------------------------------------ item
    def fields_src(self, v, var):
        fs = var['fields']
        if var['style'] == 'unit':
            return ''
        parts = []
        for i, f in enumerate(fs, 1):
            a = self.field_attr(v, i, f)
            ty = self.field_type(v, i, f)
            if var['style'] == 'named':
                parts.append('%s%s: %s' % (a, self.fname(v, i), ty))
            else:
                parts.append('%s%s' % (a, ty))
        if var['style'] == 'named':
            return ' { %s }' % ', '.join(parts)
        return '(%s)' % ', '.join(parts)

    def repr_attr(self):
        r = self.opts.get('repr', 'none')
        return '' if r == 'none' else '#[repr(%s)] ' % r

    def generics_decl(self):
        return ''

    def where_decl(self):
        return ''

    MACRO_WRAP_PROPS = ('C01', 'C02', 'C03', 'C05', 'C06', 'C07', 'C08', 'C09', 'C10', 'C19')

    def item(self, derive=True):
        text = self.item_plain(derive)
        # a quarter of the compiled items are declared through a macro_rules! helper whose body holds the derive while
        # the item itself (attributes, fields) comes from the invocation: tokens of two hygiene contexts in one derive input
        if derive and not self.canonical and self.prop in self.MACRO_WRAP_PROPS and hpick(4, self.idx, 'macrowrap') == 0 \
                and text.startswith('#[derive(Educe)] '):
            body = text[len('#[derive(Educe)] '):]
            return 'macro_rules! w__%d { ($($t:tt)*) => { #[derive(Educe)] $($t)* } } w__%d! { %s }' % (self.idx, self.idx, body)
        return text

    def item_plain(self, derive=True):
        self.sites = []
        c = self.cfg
        head = '%s%s%s' % ('#[derive(Educe)] ' if derive else '', self.type_attr(), self.repr_attr())
        if self.foreign:
            # the item's own surroundings: doc comments and lint attributes before / between / after the derive and educe
            # attributes, and a visibility
            how = pick(['', 'doc-first', 'allow-mid', 'both', 'vis', 'vis-in'], 'foreign-item', self.idx)
            if how in ('doc-first', 'both'):
                head = '#[doc = "t"] ' + head
            if how in ('allow-mid', 'both'):
                head = head + '#[allow(dead_code)] '
            if how in ('vis', 'both'):
                head = head + 'pub(crate) '
            if how == 'vis-in':
                head = head + 'pub(in crate) '
        g = self.generics_decl()
        w = self.where_decl()
        if c['kind'] == 'struct':
            var = c['variants'][0]
            body = self.fields_src(1, var)
            if var['style'] == 'named':
                return '%sstruct %s%s%s%s' % (head, self.name, g, (' ' + w if w else ''), body)
            return '%sstruct %s%s%s%s;' % (head, self.name, g, body, (' ' + w if w else ''))
        if c['kind'] == 'union':
            var = c['variants'][0]
            return '%sunion %s%s%s%s' % (head, self.name, g, (' ' + w if w else ''), self.fields_src(1, var))
        vs = []
        for v, var in enumerate(c['variants'], 1):
            d = '' if var.get('disc', NO_DISC) == NO_DISC else ' = %s' % self.disc_text(v, int(var['disc']))
            vs.append('%s%s%s%s' % (self.variant_attr(v, var), self.vname(v), self.fields_src(v, var), d))
        return '%senum %s%s%s { %s }' % (head, self.name, g, (' ' + w if w else ''), ', '.join(vs))

    VNAME_PROPS = ('C02', 'C03', 'C04', 'C05', 'C07', 'C08', 'C09', 'C10')

    def vname(self, v):
        """the identifier of variant v: `V<v>`, except that in a sixth of the run-time configurations the first variant is
        called like the type itself (`enum T7 { T7(..), V2 }`)"""
        if v == 1 and not self.canonical and self.prop in self.VNAME_PROPS and hpick(6, self.idx, 'vname') == 0:
            return self.name
        return 'V%d' % v

    def disc_text(self, v, n):
        """an explicit discriminant, written as a decimal, hexadecimal or separated literal (the same integer)"""
        if n >= 2000000000 - 1000:
            n = 18446744073709551615 - (2000000000 - n)      # the model's BigDisc (2e9) stands for u64::MAX
        if self.canonical:
            return str(n)
        sign, m = ('-' if n < 0 else ''), abs(n)
        return [str(n), '%s0x%X' % (sign, m), '%s0_%d' % (sign, m)][hpick(3, self.idx, 'disc', v)]

    def extra_items(self):
        """items rendered after the type (on the same line)"""
        out = []
        if 'Ord' in self.traits and 'PartialOrd' not in self.traits:
            out.append('impl ::core::cmp::PartialOrd for %s { fn partial_cmp(&self, o: &Self) -> Option<::core::cmp::Ordering> '
                       '{ Some(::core::cmp::Ord::cmp(self, o)) } }' % self.name)
        if 'Copy' in self.traits:
            out.append('const _: fn() = || { fn is_copy<T: ::core::marker::Copy>() {} is_copy::<%s>(); };' % self.name)
        return ' '.join(out)

    # ------------------------------------------------------------ Case impl
    def ctor(self, v, var, side='s', vals='x'):
        c = self.cfg
        path = self.name if c['kind'] != 'enum' else '%s::%s' % (self.name, self.vname(v))
        n = len(var['fields'])
        if var['style'] == 'unit':
            return path
        args = [self.field_ctor(v, i, var['fields'][i - 1], side, '%s[%d]' % (vals, i - 1)) for i in range(1, n + 1)]
        if var['style'] == 'named':
            return '%s { %s }' % (path, ', '.join('%s: %s' % (self.fname(v, i), a) for i, a in enumerate(args, 1)))
        return '%s(%s)' % (path, ', '.join(args))

    def field_ctor(self, v, i, f, side, val):
        ty = f.get('ty', 'P')
        if ty == 'P':
            return 'P::new(%s, %d, %s)' % (side, i, val)
        if ty == 'unit':
            return '()'
        if ty in ('A', 'B'):
            return 'T%s::new(%s, %d, %s)' % (ty, side, i, val)
        if ty == 'ref':
            return '&*Box::leak(Box::new(P::new(%s, %d, %s)))' % (side, i, val)
        if ty == 'refmut':
            return 'Box::leak(Box::new(P::new(%s, %d, %s)))' % (side, i, val)
        if ty == 'refref':
            return '&*Box::leak(Box::new(&*Box::leak(Box::new(P::new(%s, %d, %s)))))' % (side, i, val)
        return 'probes::mk_%s(%s)' % (ty, val)

    def var_pattern(self, v, var, names):
        c = self.cfg
        path = self.name if c['kind'] != 'enum' else '%s::%s' % (self.name, self.vname(v))
        if var['style'] == 'named':
            return '%s { %s }' % (path, ', '.join('%s: %s' % (self.fname(v, i), g) for i, g in enumerate(names, 1)))
        if var['style'] == 'tuple':
            return '%s(%s)' % (path, ', '.join(names))
        return path

    def finger_arm(self, v, var):
        n = len(var['fields'])
        names = ['g%d' % i for i in range(1, n + 1)]
        pat = self.var_pattern(v, var, names)
        if n == 0:
            return '%s => format!("[%d,[]]")' % (pat, v)
        fmt = ','.join('{}' for _ in names)
        return '%s => format!("[%d,[%s]]", %s)' % (pat, v, fmt, ', '.join('%s.finger()' % g for g in names))

    def addrs_impl(self):
        """impl Addrs: address of every field's storage (referent for reference fields), per variant"""
        arms = []
        for v, var in enumerate(self.cfg['variants'], 1):
            names = ['g%d' % i for i in range(1, len(var['fields']) + 1)]
            arms.append('%s => vec![%s],' % (self.var_pattern(v, var, names), ', '.join('addr_of_p(%s)' % g for g in names)))
        return 'impl Addrs for %s { fn addrs(&self) -> Vec<usize> { match self { %s } } }' % (self.name, ' '.join(arms))

    def case_impl(self):
        c = self.cfg
        nv = len(c['variants'])
        nf_arms = ' '.join('%d => %d,' % (v, len(var['fields'])) for v, var in enumerate(c['variants'], 1))
        mk_arms = ' '.join('%d => %s,' % (v, self.ctor(v, var)) for v, var in enumerate(c['variants'], 1))
        if c['kind'] == 'union' or not self.with_finger:
            finger = ''
        elif nv == 0:
            finger = 'fn finger(&self) -> String { match *self {} }'
        else:
            fa = ' '.join(self.finger_arm(v, var) + ',' for v, var in enumerate(c['variants'], 1))
            finger = 'fn finger(&self) -> String { match self { %s } }' % fa
        return ('impl Case for %s { const ID: usize = %d; fn nvariants() -> usize { %d } '
                'fn nfields(v: usize) -> usize { match v { %s _ => unreachable!() } } '
                '#[allow(unused_variables)] fn make(s: u8, v: usize, x: &[i8]) -> Self { match v { %s _ => unreachable!() } } %s }'
                % (self.name, self.idx, nv, nf_arms, mk_arms, finger))
