#!/bin/sh
# usage: mutcheck.sh <seeded-id> <property>   — apply a seeded change to /repo, run the property's quick check, undo
set -u
id=$1; prop=$2
cd /repo && git apply /verif/seeded/$id/patch.diff || { echo "cannot apply"; exit 3; }
cd /verif && ./check run $prop --tier quick > /verif/work/mut_${id}_${prop}.log 2>&1; rc=$?
cd /repo && git checkout -- . 
echo "mutant $id vs $prop: exit=$rc violations=$(grep -c '^VIOLATION' /verif/work/mut_${id}_${prop}.log)"
exit 0
