#![allow(dead_code)]
use educe::Educe;
pub trait Bnd {} pub trait Usr {} impl Bnd for u8 {} impl Usr for u8 {}
#[derive(Educe)] #[educe(Copy, Clone(bound(*)))] struct T1061<'a, const N: usize, T: Bnd = u8>(T, ::core::marker::PhantomData<&'a [T; N]>) where T: Usr;
fn main() {}
