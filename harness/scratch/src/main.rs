#![allow(dead_code)]
use educe::Educe;
#[derive(Educe)]
#[educe(Debug, Clone, PartialEq, Eq, PartialOrd, Ord, Hash)]
enum E { A { _0: u8, _f: u8, __f: u8, _s_x: u8, x_: u8 } }
#[derive(Educe)]
#[educe(Debug, Clone, PartialEq, PartialOrd, Hash, Default, Deref, DerefMut, Into(u8))]
enum F { A { #[educe(Deref, DerefMut, Into(u8))] _0: u8, _f: u16 } }
#[derive(Educe)]
#[educe(Debug, Clone, PartialEq, Eq, PartialOrd, Ord, Hash, Default, Deref, DerefMut, Into(u8))]
struct S { #[educe(Deref, DerefMut, Into(u8))] _0: u8, _f: u16, __f: u32 }
fn main() { }
