//! Probe field types, custom methods and op runners for channel R.
//!
//! Nothing in this crate judges anything: probes log every call the generated
//! code makes into them (which operand, which field, which value, what they
//! returned) and then behave according to the fixed probe semantics that the
//! TLA+ specification (EduceRun.tla) also defines. Runners execute one public
//! operation of the derived impl per record and write ndjson.

use std::{
    cell::RefCell,
    cmp::Ordering,
    fmt::Write as FmtWrite,
    hash::{Hash, Hasher},
    io::Write,
    panic::{catch_unwind, AssertUnwindSafe},
};

pub const NAN: i8 = 9;

thread_local! {
    static LOG: RefCell<Vec<String>> = RefCell::new(Vec::new());
}

pub fn log_push(s: String) {
    LOG.with(|l| l.borrow_mut().push(s));
}

pub fn log_take() -> Vec<String> {
    LOG.with(|l| std::mem::take(&mut *l.borrow_mut()))
}

fn side_name(s: u8) -> &'static str {
    match s {
        0 => "a",
        1 => "b",
        2 => "c",
        3 => "new",
        _ => "?",
    }
}

fn ord_name(o: Ordering) -> &'static str {
    match o {
        Ordering::Less => "Less",
        Ordering::Equal => "Equal",
        Ordering::Greater => "Greater",
    }
}

fn pord_name(o: Option<Ordering>) -> &'static str {
    match o {
        Some(o) => ord_name(o),
        None => "None",
    }
}

/// The probe field type. `s` = operand the value was built for, `f` = 1-based declaration index of
/// the field inside its variant, `v` = abstract value. `g` (generation) tells how the value came to
/// be: 0 = built by the harness, otherwise see the constants below.
pub struct P {
    pub s: u8,
    pub f: u8,
    pub v: i8,
    pub g: u8,
}

pub const G_ORIG: u8 = 0;
pub const G_CLONE: u8 = 1; // produced by <P as Clone>::clone
pub const G_CLONE_FROM: u8 = 2; // overwritten by <P as Clone>::clone_from
pub const G_METHOD: u8 = 3; // produced by the custom clone method
pub const G_DEFAULT: u8 = 4; // produced by <P as Default>::default
pub const G_FROM: u8 = 5; // produced by From<literal>

impl P {
    pub fn new(s: u8, f: u8, v: i8) -> P {
        P {
            s,
            f,
            v,
            g: G_ORIG,
        }
    }

    fn arg(&self) -> String {
        format!("\"{}\",{},{}", side_name(self.s), self.f, self.v)
    }

    /// fingerprint of a field value as found in a result: [side, field, val, generation]
    pub fn finger(&self) -> String {
        format!("[\"{}\",{},{},{}]", side_name(self.s), self.f, self.v, self.g)
    }
}

fn log_bin(func: &str, via: &str, l: &P, r: &P, ret: &str) {
    log_push(format!("[\"{}\",\"{}\",{},{},{}]", func, via, l.arg(), r.arg(), ret));
}

fn log_un(func: &str, via: &str, l: &P, ret: &str) {
    log_push(format!("[\"{}\",\"{}\",{},{}]", func, via, l.arg(), ret));
}

// ---------------------------------------------------------------- decoys
// Inherent methods named like the trait methods, all behaving *differently* (and logging as "inherent"): method-call
// syntax (`x.clone()`, `a.eq(b)`) in generated code would reach these instead of the trait impls, and the trace
// specification knows no "inherent" call.
pub const G_DECOY: u8 = 9;
#[allow(clippy::should_implement_trait, clippy::wrong_self_convention)]
impl P {
    pub fn clone(&self) -> P {
        log_un("clone", "inherent", self, "0");
        P { s: self.s, f: self.f, v: self.v, g: G_DECOY }
    }
    pub fn clone_from(&mut self, src: &P) {
        log_bin("clone_from", "inherent", self, src, "0");
        self.g = G_DECOY;
    }
    pub fn eq(&self, o: &P) -> bool {
        log_bin("eq", "inherent", self, o, "false");
        false
    }
    pub fn ne(&self, o: &P) -> bool {
        log_bin("ne", "inherent", self, o, "false");
        false
    }
    pub fn cmp(&self, o: &P) -> Ordering {
        log_bin("cmp", "inherent", self, o, "\"Greater\"");
        Ordering::Greater
    }
    pub fn partial_cmp(&self, o: &P) -> Option<Ordering> {
        log_bin("partial_cmp", "inherent", self, o, "\"None\"");
        None
    }
    pub fn hash<H: Hasher>(&self, state: &mut H) {
        log_un("hash", "inherent", self, "0");
        state.write_u8(0xEE);
    }
    pub fn fmt(&self, f: &mut std::fmt::Formatter<'_>) -> std::fmt::Result {
        log_un("fmt", "inherent", self, "0");
        f.write_str("inherent")
    }
    pub fn default() -> P {
        P { s: 3, f: 0, v: 0, g: G_DECOY }
    }
    /// (`self.f.into()` would reach this one)
    pub fn into<const K: u8>(self) -> TT<K> {
        TT { s: self.s, f: self.f, v: self.v, g: G_DECOY }
    }
}

// ---------------------------------------------------------------- probe semantics (own impls)

impl PartialEq for P {
    fn eq(&self, o: &P) -> bool {
        // like a float: the value NAN is not equal to anything, itself included
        let r = self.v == o.v && self.v != NAN;
        log_bin("eq", "own", self, o, if r { "true" } else { "false" });
        r
    }

    #[allow(clippy::partialeq_ne_impl)]
    fn ne(&self, o: &P) -> bool {
        let r = !(self.v == o.v && self.v != NAN);
        log_bin("ne", "own", self, o, if r { "true" } else { "false" });
        r
    }
}

impl Eq for P {}

impl std::fmt::Debug for P {
    fn fmt(&self, f: &mut std::fmt::Formatter<'_>) -> std::fmt::Result {
        log_un("fmt", "own", self, "0");
        // the alternate flag must reach the field: upper case in pretty mode
        if f.alternate() {
            write!(f, "P{}", self.v)
        } else {
            write!(f, "p{}", self.v)
        }
    }
}

pub fn m_fmt<X: AsP>(a: &X, f: &mut std::fmt::Formatter<'_>) -> std::fmt::Result {
    let a = a.p();
    log_un("fmt", "method", a, "0");
    if f.alternate() {
        write!(f, "M{}", a.v)
    } else {
        write!(f, "m{}", a.v)
    }
}

fn own_pcmp(x: i8, y: i8) -> Option<Ordering> {
    if x == NAN || y == NAN {
        None
    } else {
        Some(x.cmp(&y))
    }
}

impl PartialOrd for P {
    fn partial_cmp(&self, o: &P) -> Option<Ordering> {
        let r = own_pcmp(self.v, o.v);
        log_bin("partial_cmp", "own", self, o, &format!("\"{}\"", pord_name(r)));
        r
    }
}

impl Ord for P {
    fn cmp(&self, o: &P) -> Ordering {
        let r = self.v.cmp(&o.v);
        log_bin("cmp", "own", self, o, &format!("\"{}\"", ord_name(r)));
        r
    }
}

impl Hash for P {
    fn hash<H: Hasher>(&self, state: &mut H) {
        log_un("hash", "own", self, "0");
        // self-delimiting own feed: a tag byte and the value
        state.write_u8(0xA0);
        state.write_i8(self.v);
    }
}

impl Default for P {
    fn default() -> P {
        log_push("[\"default\",\"own\"]".to_string());
        P { s: 3, f: 0, v: 7, g: G_DEFAULT }
    }
}

impl From<i32> for P {
    fn from(n: i32) -> P {
        P { s: 3, f: 0, v: n as i8, g: G_FROM }
    }
}

// P is Copy so that types educing Copy can contain it; the hand-written Clone still logs, which is
// how a bitwise copy (generation unchanged, no call) is told apart from a field-wise clone.
impl Copy for P {}

#[allow(clippy::expl_impl_clone_on_copy)]
impl Clone for P {
    fn clone(&self) -> P {
        log_un("clone", "own", self, "0");
        P {
            s: self.s,
            f: self.f,
            v: self.v,
            g: G_CLONE,
        }
    }

    fn clone_from(&mut self, src: &P) {
        log_bin("clone_from", "own", self, src, "0");
        self.s = src.s;
        self.f = src.f;
        self.v = src.v;
        self.g = G_CLONE_FROM;
    }
}

// ---------------------------------------------------------------- Default probes (C08)

pub const G_EXPR: u8 = 6;

/// Probe for Default: one distinct type per field position (K = 1-based declaration index), so the
/// fingerprint of `<PK<K> as Default>::default()` tells *whose* default was taken.
#[derive(Clone, Copy)]
#[repr(C)]
pub struct PK<const K: u8> {
    pub s: u8,
    pub f: u8,
    pub v: i8,
    pub g: u8,
}

impl<const K: u8> PK<K> {
    pub fn new(s: u8, f: u8, v: i8) -> Self {
        PK { s, f, v, g: G_ORIG }
    }

    pub fn finger(&self) -> String {
        format!("[\"{}\",{},{},{}]", side_name(self.s), self.f, self.v, self.g)
    }
}

impl<const K: u8> Default for PK<K> {
    fn default() -> Self {
        log_push(format!("[\"default\",\"own\",{}]", K));
        PK { s: 3, f: K, v: 7, g: G_DEFAULT }
    }
}

fn from_lit<const K: u8>(v: i8) -> PK<K> {
    log_push(format!("[\"from\",\"own\",{}]", v));
    PK { s: 3, f: 0, v, g: G_FROM }
}

impl<const K: u8> From<i32> for PK<K> {
    fn from(n: i32) -> Self {
        from_lit(n as i8)
    }
}
pub const G_FROM8: u8 = 7; // produced by From<u8> (a suffixed literal)
impl<const K: u8> From<u8> for PK<K> {
    fn from(n: u8) -> Self {
        log_push(format!("[\"from\",\"own\",{}]", n));
        PK { s: 3, f: 0, v: n as i8, g: G_FROM8 }
    }
}
impl<const K: u8> From<&str> for PK<K> {
    fn from(n: &str) -> Self {
        from_lit(n.parse().unwrap_or(-1))
    }
}
impl<const K: u8> From<bool> for PK<K> {
    fn from(n: bool) -> Self {
        // (a bool literal carries no position: the trailing tag keeps it out of the order observation)
        log_push(format!("[\"from\",\"own\",{},\"bool\"]", n as i8));
        PK { s: 3, f: 0, v: n as i8, g: G_FROM }
    }
}
impl<const K: u8> From<char> for PK<K> {
    fn from(n: char) -> Self {
        from_lit(n.to_digit(10).map(|x| x as i8).unwrap_or(-1))
    }
}
impl<const K: u8> From<f64> for PK<K> {
    fn from(n: f64) -> Self {
        from_lit(n as i8)
    }
}

impl<const K: u8> std::fmt::Debug for PK<K> {
    fn fmt(&self, f: &mut std::fmt::Formatter<'_>) -> std::fmt::Result {
        write!(f, "pk{}", self.v)
    }
}

/// formatting method usable for any field type (bystander Debug attributes)
pub fn m_any<T>(_: &T, f: &mut std::fmt::Formatter<'_>) -> std::fmt::Result {
    f.write_str("any")
}

/// hashing method usable for any field type (bystander Hash attributes)
pub fn m_anyhash<T, H: Hasher>(_: &T, _: &mut H) {}

/// a user expression (not a literal)
/// the same probe without a Default impl (same layout): a field that is only ever built from its own expression must
/// not be asked for `Default`
#[derive(Clone, Copy)]
#[repr(C)]
pub struct PN<const K: u8> {
    pub s: u8,
    pub f: u8,
    pub v: i8,
    pub g: u8,
}
impl<const K: u8> PN<K> {
    pub fn finger(&self) -> String {
        format!("[\"{}\",{},{},{}]", side_name(self.s), self.f, self.v, self.g)
    }
}
impl<const K: u8> std::fmt::Debug for PN<K> {
    fn fmt(&self, f: &mut std::fmt::Formatter<'_>) -> std::fmt::Result {
        write!(f, "pn{}", self.v)
    }
}
pub fn pnexpr<const K: u8>(n: i8) -> PN<K> {
    log_push(format!("[\"expr\",\"own\",{}]", n));
    PN { s: 3, f: 0, v: n, g: G_EXPR }
}

pub fn pexpr<const K: u8>(n: i8) -> PK<K> {
    log_push(format!("[\"expr\",\"own\",{}]", n));
    PK { s: 3, f: 0, v: n, g: G_EXPR }
}

/// fingerprints of natural-typed fields
pub trait Fp {
    fn finger(&self) -> String;
}
impl Fp for u8 {
    fn finger(&self) -> String {
        format!("[\"nat\",0,{},0]", self)
    }
}
impl Fp for i32 {
    fn finger(&self) -> String {
        format!("[\"nat\",0,{},0]", self)
    }
}
impl Fp for &'static str {
    fn finger(&self) -> String {
        format!("[\"nat\",0,{},0]", self.parse::<i32>().unwrap_or(-1))
    }
}
impl Fp for bool {
    fn finger(&self) -> String {
        format!("[\"nat\",0,{},0]", *self as i32)
    }
}
impl Fp for char {
    fn finger(&self) -> String {
        format!("[\"nat\",0,{},0]", self.to_digit(10).map(|x| x as i32).unwrap_or(-1))
    }
}
impl Fp for f64 {
    fn finger(&self) -> String {
        format!("[\"nat\",0,{},0]", *self as i32)
    }
}

/// T::default() (and T::new() when requested), observed as fingerprints; `froms` counts the
/// conversions made through From<literal>
pub fn run_default<T: Case + Default, W: Write>(out: &mut Out<W>, new_fn: Option<&dyn Fn() -> T>) {
    log_take();
    let r = catch_unwind(AssertUnwindSafe(|| T::default()));
    let log = log_take();
    let froms = log.iter().filter(|s| s.starts_with("[\"from\"")).count();
    // the order in which the fields' initialisers ran, as 1-based field positions (Default::default() of the
    // position-indexed probe logs its position; literals and expressions carry 10 + position)
    let order: Vec<String> = log
        .iter()
        .filter_map(|s| {
            let n: i32 = s.trim_end_matches(']').rsplit(',').next()?.parse().ok()?;
            if s.starts_with("[\"default\"") {
                Some(n.to_string())
            } else if s.starts_with("[\"from\"") || s.starts_with("[\"expr\"") {
                // int / str / float literals and expressions carry 10 + position, char literals the position itself
                Some((if n >= 10 { n - 10 } else { n }).to_string())
            } else {
                None
            }
        })
        .collect();
    let rn = new_fn.map(|f| catch_unwind(AssertUnwindSafe(f)));
    log_take();
    match (r, rn) {
        (Ok(r), None) => out.rec(&format!(
            "\"ev\":\"op\",\"t\":{},\"op\":\"default\",\"res\":{},\"froms\":{},\"order\":[{}],\"newres\":[]",
            T::ID, r.finger(), froms, order.join(",")
        )),
        (Ok(r), Some(Ok(n))) => out.rec(&format!(
            "\"ev\":\"op\",\"t\":{},\"op\":\"default\",\"res\":{},\"froms\":{},\"order\":[{}],\"newres\":{}",
            T::ID, r.finger(), froms, order.join(","), n.finger()
        )),
        _ => out.rec(&format!("\"ev\":\"op\",\"t\":{},\"op\":\"panic\",\"in\":\"default\"", T::ID)),
    }
}

// ---------------------------------------------------------------- custom methods
// Deliberately different from the own impls, and asymmetric.

/// a probe, or a reference to one: the custom methods take the field as it is declared
pub trait AsP {
    fn p(&self) -> &P;
}
impl AsP for P {
    fn p(&self) -> &P {
        self
    }
}
impl AsP for &P {
    fn p(&self) -> &P {
        self
    }
}
impl AsP for &mut P {
    fn p(&self) -> &P {
        self
    }
}

pub fn m_eq<X: AsP>(a: &X, b: &X) -> bool {
    let (a, b) = (a.p(), b.p());
    let r = (a.v + 1) % 3 == b.v;
    log_bin("eq", "method", a, b, if r { "true" } else { "false" });
    r
}

/// custom ordering: the reverse of the own order (and total: NAN sorts as 9)
pub fn m_cmp<X: AsP>(a: &X, b: &X) -> Ordering {
    let (a, b) = (a.p(), b.p());
    let r = b.v.cmp(&a.v);
    log_bin("cmp", "method", a, b, &format!("\"{}\"", ord_name(r)));
    r
}

/// custom partial ordering: reversed; incomparable when either side is NAN
pub fn m_pcmp<X: AsP>(a: &X, b: &X) -> Option<Ordering> {
    let (a, b) = (a.p(), b.p());
    let r = own_pcmp(b.v, a.v);
    log_bin("partial_cmp", "method", a, b, &format!("\"{}\"", pord_name(r)));
    r
}

pub fn m_hash<X: AsP, H: Hasher>(a: &X, state: &mut H) {
    let a = a.p();
    log_un("hash", "method", a, "0");
    state.write_u8(0xB0);
    state.write_i8(a.v + 100);
}

/// what the custom clone method produces for a field of this type: a fresh probe of generation G_METHOD
/// (for a reference field: a reference to a fresh, leaked one)
pub trait CloneVia: Sized {
    fn via_method(&self) -> Self;
}
impl CloneVia for P {
    fn via_method(&self) -> P {
        P {
            s: self.s,
            f: self.f,
            v: self.v,
            g: G_METHOD,
        }
    }
}
impl CloneVia for &'static P {
    fn via_method(&self) -> &'static P {
        Box::leak(Box::new(P::via_method(self)))
    }
}

pub fn m_clone<X: CloneVia + AsP>(a: &X) -> X {
    log_un("clone", "method", a.p(), "0");
    a.via_method()
}

// ---------------------------------------------------------------- recording hasher

/// Records every write made to it, by the generated code or by the probes, as `[kind, value]`.
#[derive(Default)]
pub struct RecHasher {
    pub feed: Vec<String>,
}

impl Hasher for RecHasher {
    fn finish(&self) -> u64 {
        0
    }

    fn write(&mut self, bytes: &[u8]) {
        let b: Vec<String> = bytes.iter().map(|x| x.to_string()).collect();
        self.feed.push(format!("\"bytes:{}\"", b.join(".")));
    }

    fn write_u8(&mut self, i: u8) {
        self.feed.push(format!("\"u8:{}\"", i));
    }

    fn write_u16(&mut self, i: u16) {
        self.feed.push(format!("\"u16:{}\"", i));
    }

    fn write_u32(&mut self, i: u32) {
        self.feed.push(format!("\"u32:{}\"", i));
    }

    fn write_u64(&mut self, i: u64) {
        // (the four 8-byte integer writes reach a streaming hasher as the same bytes: one class)
        self.feed.push(format!("\"w8:{}\"", i));
    }

    fn write_u128(&mut self, i: u128) {
        self.feed.push(format!("\"u128:{}\"", i));
    }

    fn write_usize(&mut self, i: usize) {
        self.feed.push(format!("\"w8:{}\"", i as u64));
    }

    fn write_i8(&mut self, i: i8) {
        self.feed.push(format!("\"i8:{}\"", i));
    }

    fn write_i16(&mut self, i: i16) {
        self.feed.push(format!("\"i16:{}\"", i));
    }

    fn write_i32(&mut self, i: i32) {
        self.feed.push(format!("\"i32:{}\"", i));
    }

    fn write_i64(&mut self, i: i64) {
        self.feed.push(format!("\"w8:{}\"", i as u64));
    }

    fn write_i128(&mut self, i: i128) {
        self.feed.push(format!("\"i128:{}\"", i));
    }

    fn write_isize(&mut self, i: isize) {
        self.feed.push(format!("\"w8:{}\"", i as u64));
    }
}

// ---------------------------------------------------------------- cases and runners

/// Implemented by generated code for every corpus type.
pub trait Case: Sized {
    /// 1-based index into the corpus
    const ID: usize;
    fn nvariants() -> usize;
    /// number of fields of variant `v` (1-based)
    fn nfields(v: usize) -> usize;
    /// build the value of variant `v` whose i-th field is the probe (side, i, vals[i-1])
    fn make(side: u8, v: usize, vals: &[i8]) -> Self;
    /// fingerprint of a value: [variant, [field fingerprints]]
    fn finger(&self) -> String {
        String::from("null")
    }
}

#[derive(Clone)]
pub struct AVal {
    pub v: usize,
    pub f: Vec<i8>,
}

impl AVal {
    pub fn json(&self) -> String {
        let f: Vec<String> = self.f.iter().map(|x| x.to_string()).collect();
        format!("{{\"v\":{},\"f\":[{}]}}", self.v, f.join(","))
    }
}

/// all abstract values of T over `dom`, in a fixed order
pub fn all_values<T: Case>(dom: &[i8]) -> Vec<AVal> {
    let mut out = Vec::new();
    let nv = T::nvariants();
    for v in 1..=nv {
        // an enum with very many variants: only the variants around the one- and two-byte boundaries and the ends
        if nv > 40 && !(v <= 2 || v + 1 >= nv || (127..=130).contains(&v) || (255..=259).contains(&v)) {
            continue;
        }
        let n = T::nfields(v);
        if n > 6 {
            // a wide variant: a sparse set of values -- all-low, all-high, alternating, and every single-field
            // deviation of the first two
            let (lo, hi) = (dom[0], dom[dom.len() - 1]);
            let mut push = |f: Vec<i8>| out.push(AVal { v, f });
            push(vec![lo; n]);
            push(vec![hi; n]);
            push((0..n).map(|i| if i % 2 == 0 { lo } else { hi }).collect());
            for i in 0..n {
                let mut f = vec![lo; n];
                f[i] = hi;
                push(f);
                let mut g = vec![hi; n];
                g[i] = lo;
                push(g);
            }
            continue;
        }
        let total = dom.len().pow(n as u32);
        for mut k in 0..total {
            let mut f = vec![0i8; n];
            for i in (0..n).rev() {
                f[i] = dom[k % dom.len()];
                k /= dom.len();
            }
            out.push(AVal {
                v,
                f,
            });
        }
    }
    out
}

pub struct Out<W: Write> {
    pub w: W,
    pub seq: u64,
}

impl<W: Write> Out<W> {
    pub fn new(w: W) -> Self {
        Out {
            w,
            seq: 0,
        }
    }

    pub fn rec(&mut self, body: &str) {
        self.seq += 1;
        writeln!(self.w, "{{\"seq\":{},{}}}", self.seq, body).unwrap();
    }
}

fn calls_json() -> String {
    format!("[{}]", log_take().join(","))
}

fn guarded<R>(f: impl FnOnce() -> R) -> Result<R, ()> {
    log_take();
    catch_unwind(AssertUnwindSafe(f)).map_err(|_| ())
}

/// `a == b` and `a != b` for every ordered pair of values
pub fn run_eq<T: Case + PartialEq, W: Write>(out: &mut Out<W>, dom: &[i8], pairs: &dyn Fn(&AVal, &AVal) -> bool) {
    let vals = all_values::<T>(dom);
    for a in vals.iter() {
        for b in vals.iter() {
            if !pairs(a, b) {
                continue;
            }
            let x = T::make(0, a.v, &a.f);
            let y = T::make(1, b.v, &b.f);
            let r = guarded(|| x == y);
            let calls = calls_json();
            let rn = guarded(|| x != y);
            let ncalls = calls_json();
            let body = match (r, rn) {
                (Ok(r), Ok(rn)) => format!(
                    "\"ev\":\"op\",\"t\":{},\"op\":\"eq\",\"a\":{},\"b\":{},\"calls\":{},\"ret\":{},\"ncalls\":{},\"nret\":{}",
                    T::ID, a.json(), b.json(), calls, r, ncalls, rn
                ),
                _ => format!(
                    "\"ev\":\"op\",\"t\":{},\"op\":\"panic\",\"in\":\"eq\",\"a\":{},\"b\":{}",
                    T::ID, a.json(), b.json()
                ),
            };
            out.rec(&body);
        }
    }
}

/// `x == x` / `x != x` on one and the same object, for every value including the non-reflexive NAN: an
/// implementation must not answer from the identity of the operands
pub fn run_eq_same<T: Case + PartialEq, W: Write>(out: &mut Out<W>, dom: &[i8]) {
    for a in all_values::<T>(&with_nan(dom)).iter() {
        let x = T::make(0, a.v, &a.f);
        #[allow(clippy::eq_op)]
        let r = guarded(|| x == x);
        let calls = calls_json();
        #[allow(clippy::eq_op)]
        let rn = guarded(|| x != x);
        let ncalls = calls_json();
        let body = match (r, rn) {
            (Ok(r), Ok(rn)) => format!(
                "\"ev\":\"op\",\"t\":{},\"op\":\"eq_same\",\"a\":{},\"calls\":{},\"ret\":{},\"ncalls\":{},\"nret\":{}",
                T::ID, a.json(), calls, r, ncalls, rn
            ),
            _ => format!("\"ev\":\"op\",\"t\":{},\"op\":\"panic\",\"in\":\"eq_same\",\"a\":{}", T::ID, a.json()),
        };
        out.rec(&body);
    }
}

/// `x.partial_cmp(&x)` on one and the same object (NAN included)
pub fn run_pcmp_same<T: Case + PartialOrd, W: Write>(out: &mut Out<W>, dom: &[i8]) {
    for a in all_values::<T>(&with_nan(dom)).iter() {
        let x = T::make(0, a.v, &a.f);
        let r = guarded(|| x.partial_cmp(&x));
        let calls = calls_json();
        let body = match r {
            Ok(r) => format!(
                "\"ev\":\"op\",\"t\":{},\"op\":\"partial_cmp_same\",\"a\":{},\"calls\":{},\"ret\":\"{}\"",
                T::ID, a.json(), calls, pord_name(r)
            ),
            _ => format!("\"ev\":\"op\",\"t\":{},\"op\":\"panic\",\"in\":\"partial_cmp_same\",\"a\":{}", T::ID, a.json()),
        };
        out.rec(&body);
    }
}

/// `a.cmp(&b)` for every ordered pair of values
pub fn run_cmp<T: Case + Ord, W: Write>(out: &mut Out<W>, dom: &[i8], pairs: &dyn Fn(&AVal, &AVal) -> bool) {
    let vals = all_values::<T>(dom);
    for a in vals.iter() {
        for b in vals.iter() {
            if !pairs(a, b) {
                continue;
            }
            let x = T::make(0, a.v, &a.f);
            let y = T::make(1, b.v, &b.f);
            let r = guarded(|| x.cmp(&y));
            let calls = calls_json();
            let body = match r {
                Ok(r) => format!(
                    "\"ev\":\"op\",\"t\":{},\"op\":\"cmp\",\"a\":{},\"b\":{},\"calls\":{},\"ret\":\"{}\"",
                    T::ID, a.json(), b.json(), calls, ord_name(r)
                ),
                _ => format!(
                    "\"ev\":\"op\",\"t\":{},\"op\":\"panic\",\"in\":\"cmp\",\"a\":{},\"b\":{}",
                    T::ID, a.json(), b.json()
                ),
            };
            out.rec(&body);
        }
    }
}

/// `a.partial_cmp(&b)` for every ordered pair of values
pub fn run_pcmp<T: Case + PartialOrd, W: Write>(out: &mut Out<W>, dom: &[i8], pairs: &dyn Fn(&AVal, &AVal) -> bool) {
    let vals = all_values::<T>(dom);
    for a in vals.iter() {
        for b in vals.iter() {
            if !pairs(a, b) {
                continue;
            }
            let x = T::make(0, a.v, &a.f);
            let y = T::make(1, b.v, &b.f);
            let r = guarded(|| x.partial_cmp(&y));
            let calls = calls_json();
            let body = match r {
                Ok(r) => format!(
                    "\"ev\":\"op\",\"t\":{},\"op\":\"partial_cmp\",\"a\":{},\"b\":{},\"calls\":{},\"ret\":\"{}\"",
                    T::ID, a.json(), b.json(), calls, pord_name(r)
                ),
                _ => format!(
                    "\"ev\":\"op\",\"t\":{},\"op\":\"panic\",\"in\":\"partial_cmp\",\"a\":{},\"b\":{}",
                    T::ID, a.json(), b.json()
                ),
            };
            out.rec(&body);
        }
    }
}

/// one `hashes` record per type: every value hashed into a fresh recording hasher, plus all `==` results
pub fn run_hashes<T: Case + Hash + PartialEq, W: Write>(out: &mut Out<W>, dom: &[i8]) {
    let vals = all_values::<T>(dom);
    let mut obs = Vec::new();
    let mut panicked = false;
    for a in vals.iter() {
        let x = T::make(0, a.v, &a.f);
        let mut h = RecHasher::default();
        let r = guarded(|| x.hash(&mut h));
        let calls = calls_json();
        if r.is_err() {
            panicked = true;
        }
        obs.push(format!("{{\"a\":{},\"calls\":{},\"feed\":[{}]}}", a.json(), calls, h.feed.join(",")));
    }
    let mut eqs = Vec::new();
    for (i, a) in vals.iter().enumerate() {
        for (j, b) in vals.iter().enumerate() {
            let x = T::make(0, a.v, &a.f);
            let y = T::make(1, b.v, &b.f);
            match guarded(|| x == y) {
                Ok(r) => eqs.push(format!("[{},{},{}]", i + 1, j + 1, r)),
                Err(_) => panicked = true,
            }
            log_take();
        }
    }
    let op = if panicked { "panic" } else { "hashes" };
    out.rec(&format!(
        "\"ev\":\"op\",\"t\":{},\"op\":\"{}\",\"obs\":[{}],\"eqs\":[{}]",
        T::ID, op, obs.join(","), eqs.join(",")
    ));
}

/// `x.clone()` for every value, `a.clone_from(&b)` for every ordered pair; results as fingerprints
pub fn run_clone<T: Case + Clone, W: Write>(out: &mut Out<W>, dom: &[i8]) {
    let vals = all_values::<T>(dom);
    for a in vals.iter() {
        let x = T::make(0, a.v, &a.f);
        match guarded(|| x.clone()) {
            Ok(r) => {
                let calls = calls_json();
                out.rec(&format!(
                    "\"ev\":\"op\",\"t\":{},\"op\":\"clone\",\"a\":{},\"calls\":{},\"res\":{}",
                    T::ID, a.json(), calls, r.finger()
                ));
            },
            Err(_) => out.rec(&format!("\"ev\":\"op\",\"t\":{},\"op\":\"panic\",\"in\":\"clone\",\"a\":{}", T::ID, a.json())),
        }
    }
    for a in vals.iter() {
        for b in vals.iter() {
            let mut x = T::make(0, a.v, &a.f);
            let y = T::make(1, b.v, &b.f);
            match guarded(|| x.clone_from(&y)) {
                Ok(()) => {
                    let calls = calls_json();
                    out.rec(&format!(
                        "\"ev\":\"op\",\"t\":{},\"op\":\"clone_from\",\"a\":{},\"b\":{},\"calls\":{},\"res\":{}",
                        T::ID, a.json(), b.json(), calls, x.finger()
                    ));
                },
                Err(_) => out.rec(&format!(
                    "\"ev\":\"op\",\"t\":{},\"op\":\"panic\",\"in\":\"clone_from\",\"a\":{},\"b\":{}",
                    T::ID, a.json(), b.json()
                )),
            }
        }
    }
}

// ---------------------------------------------------------------- Deref / DerefMut (C09)

/// addresses of the storage of every field of the current variant (for a reference-typed field: of its referent)
pub trait Addrs {
    fn addrs(&self) -> Vec<usize>;
}

pub fn addr_of_p(p: &P) -> usize {
    p as *const P as usize
}

fn index_of(addrs: &[usize], a: usize) -> usize {
    addrs.iter().position(|x| *x == a).map(|i| i + 1).unwrap_or(0)
}

pub fn run_deref<T: Case + Addrs + std::ops::Deref<Target = P>, W: Write>(out: &mut Out<W>, dom: &[i8]) {
    for a in all_values::<T>(dom).iter() {
        let x = T::make(0, a.v, &a.f);
        let addrs = x.addrs();
        match guarded(|| addr_of_p(&*x)) {
            Ok(d) => out.rec(&format!(
                "\"ev\":\"op\",\"t\":{},\"op\":\"deref\",\"a\":{},\"di\":{},\"dmi\":0,\"after\":[]",
                T::ID, a.json(), index_of(&addrs, d)
            )),
            Err(_) => out.rec(&format!("\"ev\":\"op\",\"t\":{},\"op\":\"panic\",\"in\":\"deref\",\"a\":{}", T::ID, a.json())),
        }
    }
}

pub fn run_deref_mut<T: Case + Addrs + std::ops::DerefMut<Target = P>, W: Write>(out: &mut Out<W>, dom: &[i8]) {
    for a in all_values::<T>(dom).iter() {
        let mut x = T::make(0, a.v, &a.f);
        let addrs = x.addrs();
        let r = guarded(|| {
            let d = addr_of_p(&*x);
            let dm = &mut *x as *mut P as usize;
            *x = P::new(2, 9, 5);
            (d, dm)
        });
        match r {
            Ok((d, dm)) => out.rec(&format!(
                "\"ev\":\"op\",\"t\":{},\"op\":\"deref\",\"a\":{},\"di\":{},\"dmi\":{},\"after\":{}",
                T::ID, a.json(), index_of(&addrs, d), index_of(&addrs, dm), x.finger()
            )),
            Err(_) => out.rec(&format!("\"ev\":\"op\",\"t\":{},\"op\":\"panic\",\"in\":\"deref_mut\",\"a\":{}", T::ID, a.json())),
        }
    }
}

// ---------------------------------------------------------------- Into (C10)

/// Target types of Into: TT<1> ("A") and TT<2> ("B"). They also serve as field types.
pub struct TT<const K: u8> {
    pub s: u8,
    pub f: u8,
    pub v: i8,
    pub g: u8,
}
pub type TA = TT<1>;
pub type TB = TT<2>;

impl<const K: u8> TT<K> {
    pub fn new(s: u8, f: u8, v: i8) -> Self {
        TT { s, f, v, g: G_ORIG }
    }

    pub fn finger(&self) -> String {
        format!("[\"{}\",{},{},{}]", side_name(self.s), self.f, self.v, self.g)
    }
}

impl<const K: u8> std::fmt::Debug for TT<K> {
    fn fmt(&self, f: &mut std::fmt::Formatter<'_>) -> std::fmt::Result {
        write!(f, "tt{}", self.v)
    }
}
impl<const K: u8> Hash for TT<K> {
    fn hash<H: Hasher>(&self, state: &mut H) {
        state.write_i8(self.v);
    }
}

pub trait Src {
    fn parts(&self) -> (u8, u8, i8);
}
impl Src for P {
    fn parts(&self) -> (u8, u8, i8) {
        (self.s, self.f, self.v)
    }
}
impl<const K: u8> Src for TT<K> {
    fn parts(&self) -> (u8, u8, i8) {
        (self.s, self.f, self.v)
    }
}

impl<const K: u8> From<P> for TT<K> {
    fn from(p: P) -> Self {
        log_push(format!("[\"from\",\"own\",{}]", p.arg()));
        TT { s: p.s, f: p.f, v: p.v, g: G_FROM }
    }
}

/// custom conversion method usable for every (field type, target) pair
pub fn m_into<X: Src, const K: u8>(x: X) -> TT<K> {
    let (s, f, v) = x.parts();
    log_push(format!("[\"into\",\"method\",\"{}\",{},{}]", side_name(s), f, v));
    TT { s, f, v, g: G_METHOD }
}

pub fn run_into<T: Case + Into<TT<K>>, const K: u8, W: Write>(out: &mut Out<W>, dom: &[i8]) {
    let kname = if K == 1 { "A" } else { "B" };
    for a in all_values::<T>(dom).iter() {
        let x = T::make(0, a.v, &a.f);
        log_take();
        match catch_unwind(AssertUnwindSafe(move || -> TT<K> { x.into() })) {
            Ok(r) => out.rec(&format!(
                "\"ev\":\"op\",\"t\":{},\"op\":\"into\",\"a\":{},\"k\":\"{}\",\"res\":{}",
                T::ID, a.json(), kname, r.finger()
            )),
            Err(_) => out.rec(&format!("\"ev\":\"op\",\"t\":{},\"op\":\"panic\",\"in\":\"into\",\"a\":{}", T::ID, a.json())),
        }
        log_take();
    }
}

// ---------------------------------------------------------------- unions (C20)

pub trait UCase: Sized {
    const ID: usize;
}

pub fn union_patterns(n: usize) -> Vec<Vec<u8>> {
    let dom = [0u8, 7, 255];
    if n <= 2 {
        let mut out = Vec::new();
        let total = dom.len().pow(n as u32);
        for mut k in 0..total {
            let mut b = vec![0u8; n];
            for i in (0..n).rev() {
                b[i] = dom[k % 3];
                k /= 3;
            }
            out.push(b);
        }
        out
    } else {
        vec![
            vec![0u8; n],
            vec![255u8; n],
            (1..=n).map(|i| i as u8).collect(),
            (1..=n).map(|i| if i == n { 7 } else { 0 }).collect(),
            (1..=n).map(|i| if i == 1 { 7 } else { 0 }).collect(),
        ]
    }
}

fn bytes_json(b: &[u8]) -> String {
    let v: Vec<String> = b.iter().map(|x| x.to_string()).collect();
    format!("[{}]", v.join(","))
}

fn raw_bytes<T>(x: &T) -> Vec<u8> {
    unsafe { std::slice::from_raw_parts(x as *const T as *const u8, std::mem::size_of::<T>()).to_vec() }
}

/// a union value living in place: `size_of::<T>()` bytes written into aligned storage and only ever seen through a
/// reference (a move need not carry the bytes no member covers)
pub struct InPlace<T> {
    slot: std::mem::MaybeUninit<T>,
}
impl<T> InPlace<T> {
    pub fn new(b: &[u8]) -> Self {
        let mut slot = std::mem::MaybeUninit::<T>::uninit();
        assert_eq!(b.len(), std::mem::size_of::<T>());
        unsafe { std::ptr::copy_nonoverlapping(b.as_ptr(), slot.as_mut_ptr() as *mut u8, b.len()) };
        InPlace { slot }
    }
    pub fn get(&self) -> &T {
        unsafe { &*self.slot.as_ptr() }
    }
}

/// `covered`: the number of leading bytes some member covers (the rest is padding, which a by-value clone need not
/// carry: the clone's bytes are reported for the covered prefix only, the tail is taken from the source)
pub fn run_union<T: UCase + std::fmt::Debug + PartialEq + Hash + Clone, W: Write>(out: &mut Out<W>, type_name: &str, covered: usize) {
    let n = std::mem::size_of::<T>();
    let pats = union_patterns(n);
    for b in pats.iter() {
        let xs = InPlace::<T>::new(b);
        let x = xs.get();
        let r = catch_unwind(AssertUnwindSafe(|| {
            let (o, p) = fmt_both(x);
            let mut h = RecHasher::default();
            x.hash(&mut h);
            let mut hr = RecHasher::default();
            b[..].hash(&mut hr);
            let c = x.clone();
            let mut cb = raw_bytes(&c);
            cb[covered.min(n)..].copy_from_slice(&b[covered.min(n)..]);
            let mut eqs = Vec::new();
            for b2 in pats.iter() {
                let ys = InPlace::<T>::new(b2);
                eqs.push(format!("[{},{}]", bytes_json(b2), x == ys.get()));
            }
            format!(
                "\"out\":{},\"pretty\":{},\"feed\":[{}],\"reffeed\":[{}],\"clone\":{},\"eqs\":[{}]",
                jstr(&o), jstr(&p), h.feed.join(","), hr.feed.join(","), bytes_json(&cb), eqs.join(",")
            )
        }));
        match r {
            Ok(body) => out.rec(&format!(
                "\"ev\":\"op\",\"t\":{},\"op\":\"union\",\"nm\":{},\"bytes\":{},{}",
                T::ID, jstr(type_name), bytes_json(b), body
            )),
            Err(_) => out.rec(&format!("\"ev\":\"op\",\"t\":{},\"op\":\"panic\",\"in\":\"union\"", T::ID)),
        }
    }
}

// ---------------------------------------------------------------- bounds (C11)

/// A generic wrapper that implements each trait exactly when its parameter does.
#[derive(Debug, Clone, Copy, PartialEq, Eq, PartialOrd, Ord, Hash, Default)]
pub struct Wrap<X>(pub X);

/// An argument type that implements none of the traits.
pub struct No;

impl From<No> for P {
    fn from(_: No) -> P {
        unreachable!()
    }
}

/// generic custom methods: usable whatever the field type implements
pub fn g_fmt<X>(_: &X, f: &mut std::fmt::Formatter<'_>) -> std::fmt::Result {
    f.write_str("g")
}
pub fn g_eq<X>(_: &X, _: &X) -> bool {
    true
}
pub fn g_cmp<X>(_: &X, _: &X) -> Ordering {
    Ordering::Equal
}
pub fn g_pcmp<X>(_: &X, _: &X) -> Option<Ordering> {
    Some(Ordering::Equal)
}
pub fn g_hash<X, H: Hasher>(_: &X, _: &mut H) {}
pub fn g_clone<X>(x: &X) -> X {
    // never called by the bounds corpus; a bitwise duplicate keeps the signature implementable for every X
    unsafe { std::ptr::read(x) }
}
pub fn g_into<X, const K: u8>(_: X) -> TT<K> {
    TT::new(3, 0, 0)
}

/// `impls!(Type: Trait)` -> bool at compile time, without a compile error when the bound does not hold
/// (an inherent associated const shadows the blanket trait const exactly when the bound is provable).
#[macro_export]
macro_rules! impls {
    ($ty:ty : $($tr:tt)+) => {{
        struct W<T: ?Sized>(::core::marker::PhantomData<T>);
        trait Fallback { const V: bool = false; }
        impl<T: ?Sized> Fallback for W<T> {}
        #[allow(dead_code)]
        impl<T: ?Sized + $($tr)+> W<T> { const V: bool = true; }
        <W<$ty>>::V
    }};
}

pub fn rec_applies<W: Write>(out: &mut Out<W>, id: usize, tr: &str, t: bool, u: bool, val: bool) {
    out.rec(&format!(
        "\"ev\":\"op\",\"t\":{},\"op\":\"applies\",\"tr\":\"{}\",\"args\":{{\"T\":{},\"U\":{}}},\"val\":{}",
        id, tr, t, u, val
    ));
}

// ---------------------------------------------------------------- layout matrix (C04)

/// A value with neighbour bytes: the value sits at offset 0 of a `#[repr(C)]` pair whose second member is
/// seven bytes of a chosen pattern; the whole cell is first filled with the pattern, so padding inside `T`
/// (and any byte the value itself does not initialise) carries the pattern as well.
#[repr(C)]
pub struct Cell<T>(pub T, pub [u8; 7]);

pub fn place<T>(val: T, pattern: u8) -> Box<std::mem::MaybeUninit<Cell<T>>> {
    let mut b: Box<std::mem::MaybeUninit<Cell<T>>> = Box::new(std::mem::MaybeUninit::uninit());
    unsafe {
        std::ptr::write_bytes(b.as_mut_ptr() as *mut u8, pattern, std::mem::size_of::<Cell<T>>());
        std::ptr::write(std::ptr::addr_of_mut!((*b.as_mut_ptr()).0), val);
    }
    b
}

fn cell_ref<T>(b: &std::mem::MaybeUninit<Cell<T>>) -> &T {
    unsafe { &*std::ptr::addr_of!((*b.as_ptr()).0) }
}

fn drop_cell<T>(mut b: Box<std::mem::MaybeUninit<Cell<T>>>) {
    unsafe { std::ptr::drop_in_place(std::ptr::addr_of_mut!((*b.as_mut_ptr()).0)) }
}

const PLACEMENTS: [(u8, u8); 3] = [(0x00, 0x00), (0xFF, 0x00), (0xA5, 0xFF)];

/// cmp / partial_cmp of every ordered pair, each repeated under three neighbour-byte placements
pub fn run_cmp_layout<T: Case + PartialOrd, W: Write>(out: &mut Out<W>, dom: &[i8], total: Option<&dyn Fn(&T, &T) -> Ordering>) {
    let vals = all_values::<T>(dom);
    for a in vals.iter() {
        for b in vals.iter() {
            let mut prets = Vec::new();
            let mut crets = Vec::new();
            let mut panicked = false;
            for (pa, pb) in PLACEMENTS.iter() {
                let x = place(T::make(0, a.v, &a.f), *pa);
                let y = place(T::make(1, b.v, &b.f), *pb);
                match guarded(|| cell_ref(&x).partial_cmp(cell_ref(&y))) {
                    Ok(r) => prets.push(format!("\"{}\"", pord_name(r))),
                    Err(_) => panicked = true,
                }
                if let Some(f) = total {
                    match guarded(|| f(cell_ref(&x), cell_ref(&y))) {
                        Ok(r) => crets.push(format!("\"{}\"", ord_name(r))),
                        Err(_) => panicked = true,
                    }
                }
                log_take();
                drop_cell(x);
                drop_cell(y);
            }
            if panicked {
                out.rec(&format!("\"ev\":\"op\",\"t\":{},\"op\":\"panic\",\"in\":\"cmp_layout\",\"a\":{},\"b\":{}", T::ID, a.json(), b.json()));
                continue;
            }
            out.rec(&format!(
                "\"ev\":\"op\",\"t\":{},\"op\":\"cmp_layout\",\"a\":{},\"b\":{},\"prets\":[{}],\"crets\":[{}]",
                T::ID, a.json(), b.json(), prets.join(","), crets.join(",")
            ));
        }
    }
}

pub fn total_cmp_of<T: Ord>(a: &T, b: &T) -> Ordering {
    a.cmp(b)
}

/// payload constructors: order-preserving, injective on {0, 1, 2}
pub fn mk_bool(v: i8) -> bool {
    v != 0
}
pub fn mk_u64(v: i8) -> u64 {
    v as u64
}
pub fn mk_char(v: i8) -> char {
    (b'a' + v as u8) as char
}
pub fn mk_str(v: i8) -> &'static str {
    ["a", "b", "c"][v as usize]
}
pub fn mk_nz(v: i8) -> std::num::NonZeroU8 {
    std::num::NonZeroU8::new(v as u8 + 1).unwrap()
}
pub fn mk_opt(v: i8) -> Option<u8> {
    if v == 0 {
        None
    } else {
        Some(v as u8 - 1)
    }
}
#[derive(PartialEq, Eq, PartialOrd, Ord, Hash, Debug, Clone, Copy)]
pub enum Inner {
    A,
    B,
    C,
}
pub fn mk_nested(v: i8) -> Inner {
    [Inner::A, Inner::B, Inner::C][v as usize]
}

/// the value domain extended with the incomparable value
pub fn with_nan(dom: &[i8]) -> Vec<i8> {
    let mut d = dom.to_vec();
    d.push(NAN);
    d
}

pub fn all_pairs(_: &AVal, _: &AVal) -> bool {
    true
}

/// helper for generated `main`s: `dom` from the environment (CASE_DOM="0,1,2")
pub fn dom_from_env() -> Vec<i8> {
    std::env::var("CASE_DOM")
        .unwrap_or_else(|_| "0,1".to_string())
        .split(',')
        .map(|s| s.trim().parse().unwrap())
        .collect()
}

pub fn silence_panics() {
    std::panic::set_hook(Box::new(|_| {}));
}

/// formatting helper used by Debug runners; newlines are written as '|'
pub fn fmt_both<T: std::fmt::Debug>(x: &T) -> (String, String) {
    let mut s = String::new();
    let mut p = String::new();
    write!(s, "{:?}", x).unwrap();
    write!(p, "{:#?}", x).unwrap();
    (s.replace('\n', "|"), p.replace('\n', "|"))
}

fn jstr(s: &str) -> String {
    let mut o = String::from("\"");
    for ch in s.chars() {
        match ch {
            '"' => o.push_str("\\\""),
            '\\' => o.push_str("\\\\"),
            c if (c as u32) < 0x20 => o.push_str(&format!("\\u{:04x}", c as u32)),
            c => o.push(c),
        }
    }
    o.push('"');
    o
}

/// `{:?}` and `{:#?}` of every value; `names` = type name followed by nothing, `fields[v-1]` = field
/// identifiers of variant v ("" for tuple fields); `twin` formats the same value of a twin type that
/// uses #[derive(Debug)] (only supplied for configurations without educe parameters).
pub fn run_fmt<T: Case + std::fmt::Debug, W: Write>(
    out: &mut Out<W>,
    dom: &[i8],
    type_name: &str,
    fields: &[&[&str]],
    twin: Option<&dyn Fn(usize, &[i8]) -> (String, String)>,
) {
    let vals = all_values::<T>(dom);
    for a in vals.iter() {
        let x = T::make(0, a.v, &a.f);
        log_take();
        let r1 = catch_unwind(AssertUnwindSafe(|| {
            let mut s = String::new();
            write!(s, "{:?}", x).map(|_| s)
        }));
        let calls = calls_json();
        let r2 = catch_unwind(AssertUnwindSafe(|| {
            let mut s = String::new();
            write!(s, "{:#?}", x).map(|_| s)
        }));
        let pcalls = calls_json();
        // width / precision / fill flags belong to the fields (the probes ignore them): names, keys and punctuation are
        // written as they are, so the flagged renderings equal the plain one
        let flagged: Vec<String> = [
            catch_unwind(AssertUnwindSafe(|| format!("{:7?}", x))),
            catch_unwind(AssertUnwindSafe(|| format!("{:.1?}", x))),
            catch_unwind(AssertUnwindSafe(|| format!("{:*<9?}", x))),
        ]
        .into_iter()
        .map(|r| jstr(&r.unwrap_or_else(|_| "<panic>".to_string()).replace('\n', "|")))
        .collect();
        log_take();
        let (dout, dpretty) = match twin {
            Some(f) => f(a.v, &a.f),
            None => (String::new(), String::new()),
        };
        log_take();
        let fnames: Vec<String> = fields[a.v - 1].iter().map(|s| jstr(s)).collect();
        match (r1, r2) {
            (Ok(Ok(o)), Ok(Ok(p))) => out.rec(&format!(
                "\"ev\":\"op\",\"t\":{},\"op\":\"fmt\",\"a\":{},\"nm\":{{\"type\":{},\"fields\":[{}]}},\"out\":{},\"pretty\":{},\"calls\":{},\"pcalls\":{},\"dout\":{},\"dpretty\":{},\"flagged\":[{}]",
                T::ID, a.json(), jstr(type_name), fnames.join(","), jstr(&o.replace('\n', "|")), jstr(&p.replace('\n', "|")),
                calls, pcalls, jstr(&dout), jstr(&dpretty), flagged.join(",")
            )),
            _ => out.rec(&format!("\"ev\":\"op\",\"t\":{},\"op\":\"panic\",\"in\":\"fmt\",\"a\":{}", T::ID, a.json())),
        }
    }
}
