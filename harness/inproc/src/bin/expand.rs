//! Channel X: in-process expansion of `#[derive(Educe)]` inputs.
//!
//! stdin : ndjson, one request per line  {"id": <any>, "text": "<derive input tokens>", "reps": <n, optional>}
//! stdout: ndjson, one record per expansion
//!   {"ev":"expand","id":..,"rep":k,"outcome":"ok|err|panic|timeout|lex","err":<msg|null>,
//!    "out":<token string|null>,"items":[{"trait":..,"target":..,"self":..,"generics":[..],"where":[..],"tokens":..}]}
//!
//! The binary contains no oracle: it only runs the real macro entry point and projects the result.

use std::{
    io::{BufRead, Write},
    panic,
    sync::mpsc,
    thread,
    time::Duration,
};

use proc_macro2::TokenStream;
use quote::ToTokens;
use serde_json::{json, Value};

fn norm<T: ToTokens>(t: &T) -> String {
    t.to_token_stream().to_string()
}

fn project_items(out: &TokenStream) -> Value {
    let file: syn::File = match syn::parse2(out.clone()) {
        Ok(f) => f,
        Err(e) => return json!({"unparsable": e.to_string()}),
    };
    let mut v = Vec::new();
    for item in file.items.iter() {
        match item {
            syn::Item::Impl(imp) => {
                let (tr, target) = match &imp.trait_ {
                    Some((_, path, _)) => {
                        let last = path.segments.last().unwrap();
                        let name = last.ident.to_string();
                        let target = match &last.arguments {
                            syn::PathArguments::AngleBracketed(a) => {
                                Some(a.args.iter().map(|x| norm(x)).collect::<Vec<_>>().join(", "))
                            },
                            _ => None,
                        };
                        (Some((name, norm(path))), target)
                    },
                    None => (None, None),
                };
                let generics: Vec<String> = imp.generics.params.iter().map(|p| norm(p)).collect();
                let wh: Vec<String> = match &imp.generics.where_clause {
                    Some(w) => w.predicates.iter().map(|p| norm(p)).collect(),
                    None => Vec::new(),
                };
                let fns: Vec<String> = imp
                    .items
                    .iter()
                    .map(|it| match it {
                        syn::ImplItem::Fn(f) => format!("fn {}", f.sig.ident),
                        syn::ImplItem::Type(t) => format!("type {}", t.ident),
                        syn::ImplItem::Const(c) => format!("const {}", c.ident),
                        other => norm(other),
                    })
                    .collect();
                v.push(json!({
                    "trait": tr.as_ref().map(|x| x.0.clone()),
                    "trait_path": tr.as_ref().map(|x| x.1.clone()),
                    "target": target,
                    "self": norm(&imp.self_ty),
                    "unsafe": imp.unsafety.is_some(),
                    "generics": generics,
                    "where": wh,
                    "members": fns,
                    "tokens": norm(imp),
                }));
            },
            other => {
                v.push(json!({"trait": null, "other": norm(other)}));
            },
        }
    }
    Value::Array(v)
}

fn expand_once(text: &str) -> Value {
    let ts: TokenStream = match text.parse() {
        Ok(ts) => ts,
        Err(e) => {
            return json!({"outcome": "lex", "err": e.to_string(), "out": null, "items": []});
        },
    };
    // is the input a derive input at all? (if not, the real compiler never calls the macro)
    if let Err(e) = syn::parse2::<syn::DeriveInput>(ts.clone()) {
        return json!({"outcome": "noinput", "err": e.to_string(), "out": null, "items": []});
    }
    let r = panic::catch_unwind(|| educe::educe_verif_expand(ts));
    match r {
        Ok(Ok(out)) => {
            json!({"outcome": "ok", "err": null, "out": out.to_string(), "items": project_items(&out)})
        },
        Ok(Err(e)) => {
            let msgs: Vec<String> = e.clone().into_iter().map(|x| x.to_string()).collect();
            json!({"outcome": "err", "err": e.to_string(), "errs": msgs, "out": null, "items": []})
        },
        Err(p) => {
            let msg = if let Some(s) = p.downcast_ref::<&str>() {
                s.to_string()
            } else if let Some(s) = p.downcast_ref::<String>() {
                s.clone()
            } else {
                "<non-string panic>".to_string()
            };
            json!({"outcome": "panic", "err": msg, "out": null, "items": []})
        },
    }
}

fn spawn_worker() -> (mpsc::Sender<String>, mpsc::Receiver<Value>) {
    let (tx_req, rx_req) = mpsc::channel::<String>();
    let (tx_res, rx_res) = mpsc::channel::<Value>();
    thread::Builder::new()
        .stack_size(64 << 20)
        .spawn(move || {
            while let Ok(text) = rx_req.recv() {
                let v = expand_once(&text);
                if tx_res.send(v).is_err() {
                    break;
                }
            }
        })
        .unwrap();
    (tx_req, rx_res)
}

fn main() {
    panic::set_hook(Box::new(|_| {}));
    let timeout_ms: u64 =
        std::env::var("EXPAND_TIMEOUT_MS").ok().and_then(|s| s.parse().ok()).unwrap_or(10_000);
    let stdin = std::io::stdin();
    let stdout = std::io::stdout();
    let mut out = std::io::BufWriter::new(stdout.lock());
    let (mut tx, mut rx) = spawn_worker();
    for line in stdin.lock().lines() {
        let line = line.unwrap();
        if line.trim().is_empty() {
            continue;
        }
        let req: Value = serde_json::from_str(&line).expect("bad request line");
        let id = req["id"].clone();
        let text = req["text"].as_str().expect("text").to_string();
        let reps = req["reps"].as_u64().unwrap_or(1);
        for rep in 0..reps {
            tx.send(text.clone()).unwrap();
            let mut v = match rx.recv_timeout(Duration::from_millis(timeout_ms)) {
                Ok(v) => v,
                Err(_) => {
                    // abandon the stuck worker
                    let w = spawn_worker();
                    tx = w.0;
                    rx = w.1;
                    json!({"outcome": "timeout", "err": null, "out": null, "items": []})
                },
            };
            v["ev"] = json!("expand");
            v["id"] = id.clone();
            v["rep"] = json!(rep);
            serde_json::to_writer(&mut out, &v).unwrap();
            out.write_all(b"\n").unwrap();
            // flush per record so that a hard abort loses at most the record being computed
            out.flush().unwrap();
        }
    }
}
